#!/bin/bash
# Build the registry simulation (C19) test binary from /repo's current working tree.
set -e
export GOFLAGS=-mod=mod GOPROXY=off GOSUMDB=off GOTOOLCHAIN=local
mkdir -p /verif/.build
python3 /verif/tools/mkoverlay19.py /verif/.build/overlay19 >/dev/null
cd /verif/registrysim
cp /repo/go.sum go.sum
/opt/veriftools/go1.26.8/bin/go test -c -vet=off -overlay /verif/.build/overlay19/overlay.json -o /verif/.build/registry.test .
