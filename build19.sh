#!/bin/bash
# Build the registry simulation (C19) test binary from the repository's current working tree
# (/repo, or $VERIF_REPO for a scratch checkout with a seeded change).
set -e
export GOFLAGS=-mod=mod GOPROXY=off GOSUMDB=off GOTOOLCHAIN=local
V="$(cd "$(dirname "$0")" && pwd)"
R="${VERIF_REPO:-/repo}"
mkdir -p "$V/.build"
VERIF_REPO="$R" python3 "$V/tools/mkoverlay19.py" "$V/.build/overlay19" >/dev/null
cd "$V/registrysim"
sed "s|=> /repo|=> $R|" go.mod > "$V/.build/registry.mod"
cp "$R/go.sum" "$V/.build/registry.sum"
/opt/veriftools/go1.26.8/bin/go test -modfile="$V/.build/registry.mod" -c -vet=off -overlay "$V/.build/overlay19/overlay.json" -o "$V/.build/registry.test" .
