#!/bin/bash
# Build the registry simulation (C19) test binary from /repo's current working tree.
set -e
export GOFLAGS=-mod=mod GOPROXY=off GOSUMDB=off GOTOOLCHAIN=local
V="$(cd "$(dirname "$0")" && pwd)"
mkdir -p "$V/.build"
python3 "$V/tools/mkoverlay19.py" "$V/.build/overlay19" >/dev/null
cd "$V/registrysim"
cp /repo/go.sum go.sum
/opt/veriftools/go1.26.8/bin/go test -c -vet=off -overlay "$V/.build/overlay19/overlay.json" -o "$V/.build/registry.test" .
