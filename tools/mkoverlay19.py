#!/usr/bin/env python3
"""Overlay for the registry simulation (C19): the path-level os.* calls of pkg/registry/** and
pkg/foundation/atomicfile are redirected to an injected package simfs (same signatures, hooks
for faults and crash points). Generated from /repo's current working tree at every build;
/repo itself is never written."""
import glob, json, os, re, sys

REPO = os.environ.get("VERIF_REPO", "/repo")
OUT = sys.argv[1] if len(sys.argv) > 1 else "/verif/.build/overlay19"
FUNCS = "ReadFile|RemoveAll|OpenFile|MkdirTemp|MkdirAll|Rename|WriteFile|Chmod|Remove|Open|Stat|ReadDir|Lstat|CreateTemp"
SIMFS = "github.com/conduitio/conduit/pkg/foundation/simfs"

def main():
    os.makedirs(OUT, exist_ok=True)
    replace = {}
    files = []
    for pat in ["pkg/registry/*.go", "pkg/registry/index/*.go", "pkg/registry/policy/*.go",
                "pkg/registry/boundedfetch/*.go", "pkg/foundation/atomicfile/*.go"]:
        files += glob.glob(os.path.join(REPO, pat))
    n = 0
    nsync = 0
    skipped = []
    for p in sorted(files):
        base = os.path.basename(p)
        if base.endswith("_test.go") or base.startswith("nofollow_"):
            continue
        src = open(p).read()
        new, k = re.subn(r"\bos\.(%s)\(" % FUNCS, r"simfs.\1(", src)
        # f.Sync() on an *os.File: an operation of its own (power-loss model: what is durable)
        new, ks = re.subn(r"\b([A-Za-z_][A-Za-z0-9_]*)\.Sync\(\)", r"simfs.Sync(\1)", new)
        k += ks
        nsync += ks
        if p.endswith("pkg/registry/lock.go"):
            # the wait for a contended install lock goes behind the simulator's seam
            new, kl = re.subn(r"fl\.TryLockContext\(ctx, lockPollInterval\)", "simfs.TryLockContext(ctx, fl.TryLock, path, lockPollInterval)", new)
            if kl != 1:
                print("overlay19: pkg/registry/lock.go no longer has the expected TryLockContext call", file=sys.stderr)
                sys.exit(2)
        if k == 0:
            continue
        m = re.search(r'^import \(\n', new, re.M)
        if not m:
            if re.search(r'^import "os"\n', new, re.M):
                new = re.sub(r'^import "os"\n', 'import (\n\t"os"\n)\n', new, count=1, flags=re.M)
                m = re.search(r'^import \(\n', new, re.M)
            else:
                skipped.append(p)
                continue
        new = new[:m.end()] + '\tsimfs "%s"\n' % SIMFS + new[m.end():]
        body = new[m.end():]
        if not re.search(r"\bos\.[A-Za-z_]", re.sub(r"//[^\n]*", "", body)):
            new = re.sub(r'^\t"os"\n', "", new, count=1, flags=re.M)
        q = os.path.join(OUT, p[len(REPO) + 1:].replace("/", "__"))
        open(q, "w").write(new)
        replace[p] = q
        n += k
    q = os.path.join(OUT, "simfs.go")
    open(q, "w").write(open(os.path.join(os.path.dirname(os.path.dirname(os.path.abspath(__file__))), "registrysim", "simfs.go.txt")).read())
    replace[os.path.join(REPO, "pkg/foundation/simfs/simfs.go")] = q
    json.dump({"Replace": replace}, open(os.path.join(OUT, "overlay.json"), "w"), indent=1)
    json.dump({"sync_calls": nsync, "rewritten_calls": n, "files": len(replace) - 1, "skipped": skipped}, open(os.path.join(OUT, "stats.json"), "w"))
    print("overlay19: %d calls in %d files redirected; skipped %s" % (n, len(replace) - 1, skipped))

main()
