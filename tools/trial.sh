#!/bin/bash
# usage: trial.sh <family> [base] [runs] [focus]   -- one worker, prints violations or the panic
f=$1; b=${2:-1}; n=${3:-2500}
cd /verif && ./build.sh || exit 2
rm -f /tmp/r$f.json; GODEBUG=asyncpreemptoff=1 VERIF_FOCUS=$4 VERIF_MODE=search VERIF_FAMILY=$f VERIF_SEED_BASE=$b VERIF_MAXRUNS=$n VERIF_BUDGET_S=${BUDGET:-90} VERIF_MAXVIOL=12 VERIF_OUT=/tmp/r$f.json VERIF_PROGRESS=/tmp/p$f /verif/.build/harness.test -test.run TestSim > /tmp/o$f.txt 2>&1
python3 - $f <<'PY'
import json,sys
b=sys.argv[1]
try: r=json.load(open('/tmp/r%s.json'%b))
except Exception as e:
    print(b,'died'); print(''.join(l for l in open('/tmp/o%s.txt'%b) if not l.startswith(('\t',' ')))[:3500]); print(open('/tmp/p%s'%b).read()[-30:]); sys.exit(1)
print(b, r['runs'],'unfinished',r['unfinished'], r['probes'], r['faults'])
for v in r.get('violations',[]): print('  ',v['config']['seed'], v['config']['engine'], v['violation']['prop'], v['violation']['class'], v['violation']['msg'][:240])
PY
