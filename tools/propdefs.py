# Property -> families / budgets / level. One place, used by ./check and tools.
def P(families, level="exploration", quick_s=60, thorough_s=1200, **kw):
    d = {"families": families, "level": level, "quick_s": quick_s, "thorough_s": thorough_s}
    d.update(kw)
    return d

PROPS = {
    "C01": P(["pipe"]),
    "C02": P(["pipe"]),
    "C03": P(["pipe"], level="fault_enumeration"),
    "C04": P(["pipe"]),
    "C05": P(["pipe"]),
    "C06": P(["drain"]),
    "C07": P(["pipe"]),
    "C08": P(["pipe"]),
    "C09": P(["hostile", "pipe"], panic_owner="C09"),
    "C10": P(["recover", "control"]),
    "C11": P(["control", "recover", "pipe", "apply"], panic_owner="C11", quick_s=100),
    "C12": P(["force", "control"], panic_owner="C12"),
    "C13": P(["reconf", "apply"]),
    "C14": P(["api"], level="fault_enumeration"),
    "C15": P(["import"], level="fault_enumeration"),
    "C16": P(["apply"]),
    "C17": P(["persist", "api"]),
    "C19": P(["registry"], level="fault_enumeration", script="check19"),
}
