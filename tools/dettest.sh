#!/bin/bash
# Determinism self-test: the same seeds must give byte-identical event-log hashes
#  - twice in one process and once more under strict replay of the recorded choices,
#  - across many processes with different process histories (unrelated runs first),
#  - with GOMAXPROCS env 1/4/16 (the harness forces 1; the env must not matter).
# usage: dettest.sh <family> [focus] [nseeds] [nprocs]
set -e
FAM=${1:-pipe}; FOCUS=${2:-}; N=${3:-60}; P=${4:-30}
cd /verif && ./build.sh
D=$(mktemp -d /verif/.build/det.XXXX)
for i in $(seq 1 $P); do
  case $((i%3)) in 0) G=1;; 1) G=4;; 2) G=16;; esac
  ( GOMAXPROCS=$G GODEBUG=asyncpreemptoff=1 VERIF_MODE=det VERIF_FAMILY=$FAM VERIF_FOCUS=$FOCUS VERIF_SEED_BASE=${SEED_BASE:-31337} \
    VERIF_MAXRUNS=$N VERIF_DET_PREFIX=$(( (i-1)*3 )) VERIF_OUT=$D/out.$i /verif/.build/harness.test -test.run TestSim >/dev/null 2>$D/err.$i || echo "process $i failed" >> $D/failed ) &
  if (( i % 16 == 0 )); then wait; fi
done
wait
if [ -f $D/failed ]; then cat $D/failed; tail -5 $D/err.*; exit 2; fi
if grep -l MISMATCH $D/out.* >/dev/null 2>&1; then echo "MISMATCH inside a process:"; grep -h -A12 MISMATCH $D/out.* | head -40; exit 2; fi
U=$(md5sum $D/out.* | awk '{print $1}' | sort -u | wc -l)
echo "family=$FAM focus=$FOCUS seeds=$N processes=$P distinct outputs=$U"
if [ "$U" != 1 ]; then md5sum $D/out.* | sort | head -40; diff $(ls $D/out.* | head -1) $(md5sum $D/out.* | sort | tail -1 | awk '{print $2}') | head; exit 2; fi
rm -rf $D
echo DETERMINISTIC
