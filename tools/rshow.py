#!/usr/bin/env python3
"""Show a replay file: config summary + tail."""
import json,sys
r=json.load(open(sys.argv[1])); n=int(sys.argv[2]) if len(sys.argv)>2 else 45
c=r['config']
print(c['engine'], c.get('family'), c['seed'], 'scenario',c.get('scenario'),'faults',c.get('faults'),c.get('max_faults'))
print(' src',c['sources']); print(' procs',c.get('pipe_procs')); print(' dst',c['dests'],'dlq',c['dlq']); print(' rec',c['recovery'])
print(' plan',[(a['client'],a['op'],a.get('when'),a.get('n')) for a in c['plan']])
print(' VIOL',r['violation']['class'],r['violation']['msg'][:400])
for l in (r.get('tail') or [])[-n:]: print(l[:230])
