PIPE_NOTE = ("Trusted base: the fake plugins/store model the connector protocol and the transactional store API faithfully; "
             "go1.26.8 runtime with patched synctest idle rule + pinned runtime rand; GOMAXPROCS=1 (seam/gate granularity). "
             "A clean batch is evidence, not proof.")
def T(text, ref, tech="deterministic simulation + seeded schedule/fault search, online oracle over the seam event log", note=PIPE_NOTE):
    return {"level_text": text, "design_ref": ref, "technique": tech, "level_note": note}

TEXT = {
 "C01": T("Seeded search over topologies, outcome scripts, faults, stops, crashes and every seam-level interleaving of both real engines; at every source ack the oracle demands DLQ confirmation or confirmation of every scripted leaf by every destination.", "3 C01"),
 "C02": T("Same runs with store faults and ack-send faults; at every ack the durable view (decoded independently) must already hold that position; durable positions never regress/empty; every committed position covers only handled records.", "3 C02"),
 "C03": T("The C02 invariants are evaluated after every event of every run (every prefix is a crash point), plus sampled crash/restart with a fresh stack booted from the durable map: reopen position equals the durable one and is never past an unhandled record.", "3 C03",
          tech="deterministic simulation; crash-point enumeration over every event prefix of explored runs + sampled crash/restart"),
 "C04": T("Per source session the k-th acked position must be the k-th emitted one, under PRNG-chosen completion orders of destinations, parallel workers and DLQ writes.", "3 C04"),
 "C05": T("Per destination session and source, (origin index, piece) of writes must be strictly increasing; no duplicate write of a delivery within a run.", "3 C05"),
 "C06": T("Healthy runs with a graceful stop (three ways) at a PRNG-chosen instant; when the stop reports success the drain postconditions are checked exactly; the run must complete within the caps.", "3 C06"),
 "C07": T("Window/threshold/outcome sequences with DLQ write failures; exactly-once DLQ routing, cause fields, no ack after failed DLQ write, reference window model.", "3 C07"),
 "C09": T("Plugins answer with hostile shapes chosen by the PRNG at every call (processor: more/zero/nil/mixed results, changed or empty positions, degenerate multi-records, nil errors; destination: empty, surplus, reordered, unknown, duplicate acks; source: duplicate/empty positions, empty batches) plus plugin call errors; a worker process killed by a panic with engine frames is replayed and attributed; hangs are detected as simulated-time idleness with all seams served; conditions: stamps show which processors touched which record.", "3 C09",
          tech="deterministic simulation with hostile-peer fault injection; process-level panic detection + replay; alignment/stamp oracle"),
 "C10": T("One root failure class per run (transient plugin/store faults, DLQ threshold, DLQ write failure, processor error not absorbed, non-converging processor) plus user stop / server shutdown at any instant incl. the recovery back-off; oracles: back-off delay within bounds measured at park time, retry-window model, fatal => degraded with cause and no restart, stopped stays stopped, no silent stall.", "3 C10"),
 "C11": T("Histories of start/stop/stop-and-wait/force-stop with overlapping waits against runs that fail and recover; oracles: one open session per connector, wait never returns an earlier run's error (faults carry their scheduler step), no call hangs while the world is served, stored status never contradicts the live run, released connectors/processors (restartability probe), no leaked plugin session.", "3 C11"),
 "C12": T("Force stop at a PRNG-chosen instant with stalled plugins and concurrent graceful stops; oracles: sessions closed, status degraded with the force-stop cause, no automatic restart, restart resumes from a position not past any unhandled record.", "3 C12"),
 "C13": T("Live reconfigure requests (ok / failing open / cancelled / concurrent / during stop) on a flowing default-engine pipeline; oracles: each record processed once per node, in order, generations never go back, failed generation never used, open/teardown pairing per generation, running guard kept, calls return; the v2 engine must refuse.", "3 C13"),
 "C14": T("Generated sequences of management calls (valid and invalid arguments, running and file-provisioned pipelines); each sequence is run fault-free and then once per (call, store operation) with exactly that store operation failing - a complete enumeration of single store failures per sequence; after every call: failed call => memory and store unchanged, memory == what a restarted server loads, references consistent both ways, guarded entities untouched.", "3 C14",
          tech="sequential simulation over the simulated store with exhaustive single-fault enumeration per generated call sequence; restart-equivalence oracle"),
 "C15": T("Chains of 2-5 configurations drawn from a grammar (1-3 sources/destinations, 0-4 processors per parent with conditions and workers, DLQ block, Unicode settings; edits: field changes, insertions, deletions, reorders) are imported through Import and through Plan+ApplyPlan; per chain every single store-operation failure and every processor-plugin failure of every import is enumerated; oracles: export == imported config and plan empty after success, re-import writes nothing, failure retains config/store/memory, positions of surviving connectors kept.", "3 C15",
          tech="sequential simulation with exhaustive single-fault enumeration per generated configuration chain; export/plan/re-import oracles"),
 "C17": T("Every call of generated sequences (arbitrary-byte positions incl. invalid UTF-8 / empty / nil / 70 KB, Unicode settings and names, every status, DLQ blocks, reference orderings) is followed by a restart of all services on the durable map; canonical views must be equal, running/recovering pipelines must load as system-stopped; the repository's golden documents and a pre-0.4.1 connector document must load and stay stable. Only durable-state restart and value generation are used: no schedule or fault influences this property.", "3 C17",
          tech="durable-state-only restart inside the simulator + generated stored values; canonical re-encoding comparison"),
 "C08": T("Scripted result kinds per record and stage (pass/modify/filter/error/split/short), chains and fan-out; every destination write must be a leaf the scripted chain produces; acks only via C01's rule.", "3 C08"),
}

NOT_APPLICABLE = [
 {"property_id": "C18", "reason": "pure classification of (IP, port, policy) plus a dial-time gate on real sockets with no seam a simulated transport could occupy; no schedule, clock, fault or crash in the property (DESIGN.md section 5)"},
 {"property_id": "C20", "reason": "pure function of an error tree; no concurrency, time or I/O for a simulator to control (DESIGN.md section 5)"},
]
# properties claimed in DESIGN.md whose checks are not registered yet are listed here until they are
PENDING = ["C16", "C19"]
import sys, os
sys.path.insert(0, os.path.dirname(__file__))
from propdefs import PROPS as _P
for p in PENDING:
    if p not in _P:
        NOT_APPLICABLE.append({"property_id": p, "reason": "check not registered yet (simulation family under construction; see DESIGN.md section 3) - not a claim of inapplicability"})
