#!/usr/bin/env python3
"""Debug helper: show one seed (config summary, tail of events, engine stacks of the current bubble)."""
import json, os, re, subprocess, sys
seed = sys.argv[1]; fam = sys.argv[2] if len(sys.argv) > 2 else "pipe"; ntail = int(sys.argv[3]) if len(sys.argv) > 3 else 25
env = dict(os.environ, GODEBUG="asyncpreemptoff=1", VERIF_STACKS="1", VERIF_MODE="show", VERIF_FAMILY=fam, VERIF_SEED=seed)
out = subprocess.run(["/verif/.build/harness.test", "-test.run", "TestSim"], env=env, capture_output=True, text=True).stdout
lines = out.split("\n")
c = json.loads(lines[0])
print(c["engine"], "focus", c.get("focus"), "src", c["sources"], "\n pipe", c.get("pipe_procs"), "\n dst", c["dests"], "\n dlq", c["dlq"], "faults", c.get("faults"), c["max_faults"], "\n plan", [(a["client"], a["op"], a.get("when"), a.get("n")) for a in c["plan"]], "\n rec", c["recovery"], "persist", c["persist_delay_ms"], c["persist_bundle"], c["policy"])
ev = [l for l in lines if l.startswith("#")]
for l in ev[-ntail:]:
    print(l[:260])
rest = "\n".join(l for l in lines[1:] if not l.startswith("#"))
for g in rest.split("\n\n"):
    if g.startswith("goroutine"):
        fr = [l.strip() for l in g.split("\n") if l.startswith("\t") and ("/repo/" in l)]
        hdr = g.split("\n")[0]
        print(hdr[:70], " <- ".join(re.sub(r"/repo/pkg/", "", f.split(" ")[0]) for f in fr[:6]))
print("\n".join(l[:400] for l in rest.split("\n") if l.startswith(("parked", "steps=", "VIOLATION"))))
