#!/bin/bash
# usage: guide.sh <replay.json>  -- replays in guide (non-strict) mode, prints violations
cd /verif
rm -f /tmp/guide.out.json
GODEBUG=asyncpreemptoff=1 VERIF_MODE=guide VERIF_REPLAY=$1 VERIF_OUT=/tmp/guide.out.json /verif/.build/harness.test -test.run TestSim > /tmp/guide.txt 2>&1
python3 - <<'PY'
import json
try: r=json.load(open('/tmp/guide.out.json'))
except Exception: print('died'); print(open('/tmp/guide.txt').read()[-3000:]); raise SystemExit(1)
print('finished',r.get('finished'),'steps',r.get('steps'),'diverged',r.get('diverged'))
for v in r.get('violations') or []: print('  ',v['prop'],v['class'],v['msg'][:300])
PY
