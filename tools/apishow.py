#!/usr/bin/env python3
import json,os,subprocess,sys,difflib
seed=sys.argv[1]; fam=sys.argv[2] if len(sys.argv)>2 else 'api'
env=dict(os.environ,GODEBUG='asyncpreemptoff=1',VERIF_MODE='search',VERIF_FAMILY=fam,VERIF_SEEDS=seed,VERIF_BUDGET_S='30',VERIF_MAXVIOL='5',VERIF_OUT='/tmp/r_apishow.json')
subprocess.run(['/verif/.build/harness.test','-test.run','TestSim'],env=env,capture_output=True)
r=json.load(open('/tmp/r_apishow.json'))
for v in r.get('violations',[]):
    m=v['violation']['msg']
    print(v['violation']['prop'], v['violation']['class'])
    if ' vs ' in m:
        head,rest=m.split(': "',1) if ': "' in m else (m,'')
        a,b=rest.split('" vs "',1) if '" vs "' in rest else (rest,'')
        print(head)
        a=a.replace('\\"','"'); b=b.replace('\\"','"')
        # show differing region
        i=0
        while i<min(len(a),len(b)) and a[i]==b[i]: i+=1
        print('  A: ...'+a[max(0,i-60):i+120]); print('  B: ...'+b[max(0,i-60):i+120])
    else: print(m[:600])
    print([ (o['op'],o.get('ref')) for o in v['config'].get('api_ops',[])][:14], v.get('config',{}).get('api_config_provisioned'))
    break
