#!/bin/bash
# usage: seedverify.sh <worktree> <pkgdir>  -- confirms a seeded defect: demo fails on patched tree, passes on original, package tests pass on patched tree
wt=$1; pkg=$2
export GOFLAGS=-mod=mod GOPROXY=off
cd $wt || exit 2
rm -f $pkg/seeded_demo_test.go
git checkout -- go.sum go.mod 2>/dev/null
git diff --quiet -- pkg && { echo "patch not applied?"; git apply _seeded/patch.diff || exit 2; }
git diff -- pkg > /tmp/sv.diff; diff <(grep '^[+-]' /tmp/sv.diff | grep -v '^+++\|^---') <(grep '^[+-]' _seeded/patch.diff | grep -v '^+++\|^---') >/dev/null && echo "patch.diff == working tree change" || echo "WARNING: patch.diff differs from working tree change"
go build ./... || { echo BUILD-FAIL; exit 1; }
cp _seeded/demo/*_test.go $pkg/
echo "--- demo on patched tree (expect FAIL)"; go test -vet=off -count=1 -run 'TestSeeded' ./$pkg/ 2>&1 | grep -E "^(--- FAIL|FAIL|ok|PASS)|PROPERTY BROKEN" | head -5
git apply -R _seeded/patch.diff
echo "--- demo on original tree (expect ok)"; go test -vet=off -count=1 -run 'TestSeeded' ./$pkg/ 2>&1 | grep -E "^(--- FAIL|FAIL|ok|PASS)|PROPERTY BROKEN" | head -5
git apply _seeded/patch.diff
rm -f $pkg/seeded_demo_test.go $pkg/*seeded*_test.go
echo "--- existing tests on patched tree"; go test -vet=off -count=1 -timeout 20m ./$pkg/... ${EXTRA_PKGS} 2>&1 | grep -v "no test files" | tail -6
git checkout -- go.sum go.mod 2>/dev/null
