#!/usr/bin/env python3
"""Generate the build overlay used by the simulation harness.

The overlay never touches /repo or GOROOT on disk; `go test -overlay` substitutes
the patched files at build time only.

 1. runtime/runtime2.go : goroutines blocked on sync.Mutex / RWMutex count as idle
    for synctest (the engine holds locks across seam calls).
 2. runtime/rand.go     : fixed start-up seed (stable map hash seeds per binary) and a
    per-run pinned sequence for runtime.rand / cheaprand *inside a bubble only*
    (map iteration order, select case order).
 3. optional: instrumented copies of repo files (gates, simfs) produced by simgen.
"""
import json, os, sys, subprocess

GOROOT = "/opt/veriftools/go1.26.8"
OUT = sys.argv[1] if len(sys.argv) > 1 else "/verif/.build/overlay"

def must_replace(src, old, new, what):
    if src.count(old) != 1:
        sys.stderr.write("mkoverlay: anchor for %s found %d times\n" % (what, src.count(old)))
        sys.exit(2)
    return src.replace(old, new)

def main():
    os.makedirs(OUT, exist_ok=True)
    replace = {}
    # --- runtime2.go
    p = os.path.join(GOROOT, "src/runtime/runtime2.go")
    s = open(p).read()
    s = must_replace(s, "\twaitReasonSynctestSelect:        true,\n}",
        "\twaitReasonSynctestSelect:        true,\n"
        "\twaitReasonSyncMutexLock:         true,\n"
        "\twaitReasonSyncRWMutexRLock:      true,\n"
        "\twaitReasonSyncRWMutexLock:       true,\n}", "isIdleInSynctest")
    # a per-goroutine flag for the yield hook below (appended to the end of the g struct:
    # the offsets of the fields assembly code knows about are unchanged)
    s = must_replace(s, "\tcoroarg *coro // argument during coroutine transfers\n\tbubble  *synctestBubble\n",
        "\tcoroarg *coro // argument during coroutine transfers\n\tbubble  *synctestBubble\n\tsimNoYield bool // (sim) this goroutine never parks at a gate\n", "g.simNoYield")
    q = os.path.join(OUT, "runtime2.go"); open(q, "w").write(s); replace[p] = q
    # --- chan.go / select.go: gates. Every channel send, receive and select executed by a
    # goroutine inside a bubble first offers the simulator a chance to park the goroutine
    # ("a preemption right before this operation"); see harness/gates.go.
    p = os.path.join(GOROOT, "src/runtime/chan.go")
    s = open(p).read()
    s = must_replace(s, "func chansend(c *hchan, ep unsafe.Pointer, block bool, callerpc uintptr) bool {\n",
        "func chansend(c *hchan, ep unsafe.Pointer, block bool, callerpc uintptr) bool {\n\tsimMaybeYield(1)\n", "chansend")
    s = must_replace(s, "func chanrecv(c *hchan, ep unsafe.Pointer, block bool) (selected, received bool) {\n",
        "func chanrecv(c *hchan, ep unsafe.Pointer, block bool) (selected, received bool) {\n\tsimMaybeYield(2)\n", "chanrecv")
    q = os.path.join(OUT, "chan.go"); open(q, "w").write(s); replace[p] = q
    p = os.path.join(GOROOT, "src/runtime/select.go")
    s = open(p).read()
    s = must_replace(s, "func selectgo(cas0 *scase, order0 *uint16, pc0 *uintptr, nsends, nrecvs int, block bool) (int, bool) {\n",
        "func selectgo(cas0 *scase, order0 *uint16, pc0 *uintptr, nsends, nrecvs int, block bool) (int, bool) {\n\tsimMaybeYield(3)\n", "selectgo")
    q = os.path.join(OUT, "select.go"); open(q, "w").write(s); replace[p] = q
    # --- rand.go
    p = os.path.join(GOROOT, "src/runtime/rand.go")
    s = open(p).read()
    s = must_replace(s, "\tglobalRand.state.Init(*seed)\n",
        "\tfor i := range seed {\n\t\tseed[i] = byte(i*37 + 11)\n\t}\n\tglobalRand.state.Init(*seed)\n", "randinit")
    s = must_replace(s, "func rand() uint64 {\n",
        "func rand() uint64 {\n\tif simPinRand != 0 && getg().bubble != nil {\n\t\treturn simNextRand()\n\t}\n", "rand")
    s = must_replace(s, "func cheaprand() uint32 {\n",
        "func cheaprand() uint32 {\n\tif simPinRand != 0 && getg().bubble != nil {\n\t\treturn uint32(simNextRand() >> 17)\n\t}\n", "cheaprand")
    s += """

// ---- simulation pin (added by /verif/tools/mkoverlay.py, harness binary only) ----

var simPinRand uint64

//go:linkname simSetPinRand runtime.simSetPinRand
func simSetPinRand(v uint64) { simPinRand = v }

var simPinCount uint64

//go:linkname simGetPinCount runtime.simGetPinCount
func simGetPinCount() uint64 { return simPinCount }

// simNextRand returns the value pinned for the current scheduler step. It is a
// constant per step, not a sequence: draws made by lazily initialised process-wide
// state (which happen in the first run that reaches them and never again) must not
// shift the values later draws of the same step see.
//
//go:nosplit
func simNextRand() uint64 {
	simPinCount++
	return simPinRand
}

// ---- gates: a hook the harness installs; called at the entry of channel operations and
// of sync.Mutex.Lock by goroutines inside a bubble (never on a system stack, never with
// runtime locks held, never re-entrantly).

var simYieldFn func(kind int, n int, p0, p1, p2, p3, p4, p5 uintptr)

//go:linkname simSetYieldFn runtime.simSetYieldFn
func simSetYieldFn(f func(kind int, n int, p0, p1, p2, p3, p4, p5 uintptr)) { simYieldFn = f }

//go:linkname simSetNoYield runtime.simSetNoYield
func simSetNoYield(v bool) bool {
	gp := getg()
	old := gp.simNoYield
	gp.simNoYield = v
	return old
}

func simMaybeYield(kind int) {
	if simYieldFn == nil {
		return
	}
	gp := getg()
	if gp.bubble == nil || gp.simNoYield || gp.m.curg != gp || gp.m.locks != 0 || gp.m.preemptoff != "" {
		return
	}
	gp.simNoYield = true
	var pcs [6]uintptr
	n := callers(2, pcs[:])
	simYieldFn(kind, n, pcs[0], pcs[1], pcs[2], pcs[3], pcs[4], pcs[5])
	gp.simNoYield = false
}

//go:linkname internal_sync_simMaybeYield internal/sync.runtime_simMaybeYield
func internal_sync_simMaybeYield(kind int) { simMaybeYield(kind) }
"""
    q = os.path.join(OUT, "rand.go"); open(q, "w").write(s); replace[p] = q
    # --- internal/sync/mutex.go: starvation mode is decided by wall-clock waiting time
    # (> 1 ms), which is not a function of the schedule. Pin it off: normal mode only.
    p = os.path.join(GOROOT, "src/internal/sync/mutex.go")
    s = open(p).read()
    s = must_replace(s, "starving = starving || runtime_nanotime()-waitStartTime > starvationThresholdNs",
        "starving = starving || (false && runtime_nanotime()-waitStartTime > starvationThresholdNs)", "mutex starvation")
    s = must_replace(s, "func (m *Mutex) Lock() {\n", "func (m *Mutex) Lock() {\n\truntime_simMaybeYield(4)\n", "Mutex.Lock")
    s += "\n//go:linkname runtime_simMaybeYield\nfunc runtime_simMaybeYield(kind int)\n"
    q = os.path.join(OUT, "mutex.go"); open(q, "w").write(s); replace[p] = q
    # --- runtime/proc.go: sysmon asks a goroutine that has been running for 10 ms of
    # wall-clock time to yield at its next function call. That is a schedule decision
    # taken by a real clock: switch it off (the harness runs on one P; every goroutine
    # blocks at a seam or a channel soon enough).
    p = os.path.join(GOROOT, "src/runtime/proc.go")
    s = open(p).read()
    s = must_replace(s, "const forcePreemptNS = 10 * 1000 * 1000 // 10ms",
        "const forcePreemptNS = 1000 * 1000 * 1000 * 1000 * 1000 // (sim) effectively never", "forcePreemptNS")
    s = must_replace(s, "\tnewg.gopc = callerpc\n", "\tnewg.gopc = callerpc\n\tnewg.simNoYield = false // (sim) g structs are reused\n", "newproc1")
    q = os.path.join(OUT, "proc.go"); open(q, "w").write(s); replace[p] = q
    # --- extra replacements produced by simgen (json map file -> file)
    extra = os.path.join(OUT, "extra.json")
    if os.path.exists(extra):
        replace.update(json.load(open(extra)))
    json.dump({"Replace": replace}, open(os.path.join(OUT, "overlay.json"), "w"), indent=1)

main()
