#!/bin/bash
# usage: seedtest.sh <seeded-dir> <prop> [more props...]   -- applies patch.diff to /repo, runs quick checks, reverts
d=$1; shift
cd /repo || exit 2
if ! git diff --quiet; then echo "repo dirty"; exit 2; fi
git apply "$d/patch.diff" || { echo "patch does not apply"; exit 2; }
trap 'git -C /repo checkout -- . ' EXIT
cd /verif
for p in "$@"; do
  out=$(VERIF_BUDGET_S=${BUDGET:-60} ./check $p quick 2>&1 | tail -12)
  rc=$(echo "$out" | grep -c "^VIOLATION property=$p")
  echo "== $p: $( [ $rc -gt 0 ] && echo CAUGHT || echo missed )"
  echo "$out" | grep "^violation:\|^VIOLATION\|HARNESS\|^NOTE" | cut -c1-400
done
# evidence files were rewritten by runs on a changed tree: restore them
git -C /verif checkout -- evidence 2>/dev/null
find /verif/replays -name '*.json' -newer "$d/patch.diff" -delete 2>/dev/null
