#!/bin/bash
# usage: seedtest.sh <seeded-dir> <prop> [more props...]
# Runs the quick checks against a scratch checkout of /repo with the seeded patch applied
# (/repo itself and /verif's own build output are not touched: VERIF_REPO + a scratch copy of /verif).
d=$1; shift
SR=/tmp/seed-repo-$$; SV=/tmp/seed-verif-$$   # (unique per invocation: two seed tests may run side by side)
git -C /repo worktree remove --force $SR >/dev/null 2>&1; rm -rf $SR
git -C /repo worktree add -f --detach $SR HEAD >/dev/null 2>&1 || { echo "cannot create scratch worktree"; exit 2; }
( cd $SR && git apply "$d/patch.diff" ) || { echo "patch does not apply"; git -C /repo worktree remove --force $SR; exit 2; }
mkdir -p $SV; rsync -a --delete --exclude .build --exclude .git --exclude replays --exclude seeded /verif/ $SV/
mkdir -p $SV/replays/cross
for p in "$@"; do
  out=$(cd $SV && VERIF_REPO=$SR VERIF_BUDGET_S=${BUDGET:-60} ./check $p quick 2>&1 | tail -14)
  rc=$(echo "$out" | grep -c "^VIOLATION property=$p")
  echo "== $p: $( [ $rc -gt 0 ] && echo CAUGHT || echo missed )"
  echo "$out" | grep "^violation:\|^VIOLATION\|HARNESS\|^NOTE" | cut -c1-400
done
git -C /repo worktree remove --force $SR >/dev/null 2>&1; git -C /repo worktree prune; rm -rf $SV
