#!/usr/bin/env python3
"""Regenerate MANIFEST.json from tools/propdefs.py + tools/proptext.py."""
import json, os, sys
sys.path.insert(0, os.path.dirname(__file__))
from propdefs import PROPS
from proptext import TEXT, NOT_APPLICABLE

checks = []
for pid in sorted(PROPS):
    t = TEXT[pid]
    checks.append({
        "property_id": pid,
        "quick_cmd": "./check %s quick" % pid,
        "thorough_cmd": "./check %s thorough" % pid,
        "evidence_file": "/verif/evidence/%s.json" % pid,
        "replay_cmd_template": "./check %s --replay {path}" % pid,
        "engine": "registry-sim" if "script" in PROPS[pid] else "conduit-sim",
        "level_claimed": {"category": PROPS[pid]["level"], "text": t["level_text"], "design_ref": t["design_ref"]},
        "level_note": t["level_note"],
        "technique": t["technique"],
    })
m = {
    "version": 1,
    "setup_cmd": "./setup.sh",
    "hooks": {
        "guard": "none (instrumentation is applied at build time with `go test -overlay`; /repo sources carry no hooks)",
        "enable": "./build.sh generates the overlay (patched runtime for the harness binary, generated instrumentation) from /repo's current tree and builds /verif/harness with `replace github.com/conduitio/conduit => /repo`",
        "baseline_off_cmd": "cd /repo && go build ./... && go test -vet=off -count=1 ./...",
        "source_commits": [],
        "add_only": True,
    },
    "engines": [{
        "name": "conduit-sim", "path": "/verif/harness",
        "serves_properties": sorted(p for p in PROPS if "script" not in PROPS[p]),
        "kind_free_text": "deterministic simulation with fault injection: the real engine inside a testing/synctest bubble, all seams (plugins, store, clock, clients) simulator-owned, one PRNG-driven scheduler releasing one parked seam call (or one goroutine waiting at a gate) at a time",
    }, {
        "name": "registry-sim", "path": "/verif/registrysim",
        "serves_properties": sorted(p for p in PROPS if "script" in PROPS[p]),
        "kind_free_text": "crash-point and fault enumeration of the real registry install pipeline on a scratch directory tree, plus two installs interleaved at every file-system operation and lock wait by a seeded scheduler: os calls and the lock wait behind an injected shim, in-process network, scripted verifier",
    }],
    "checks": checks,
    "not_applicable": NOT_APPLICABLE,
    "notes": "See DESIGN.md. known_findings.json lists genuine defects (fixed ones and recorded ones).",
}
json.dump(m, open(os.path.join(os.path.dirname(__file__), "..", "MANIFEST.json"), "w"), indent=1)
print("MANIFEST.json: %d checks, %d not applicable" % (len(checks), len(NOT_APPLICABLE)))
