// Copyright 2009 The Go Authors. All rights reserved.
// Use of this source code is governed by a BSD-style
// license that can be found in the LICENSE file.

package runtime

import (
	"internal/abi"
	"internal/chacha8rand"
	"internal/goarch"
	"internal/runtime/atomic"
	"internal/runtime/sys"
	"unsafe"
)

// defined constants
const (
	// G status
	//
	// Beyond indicating the general state of a G, the G status
	// acts like a lock on the goroutine's stack (and hence its
	// ability to execute user code).
	//
	// If you add to this list, add to the list
	// of "okay during garbage collection" status
	// in mgcmark.go too.
	//
	// TODO(austin): The _Gscan bit could be much lighter-weight.
	// For example, we could choose not to run _Gscanrunnable
	// goroutines found in the run queue, rather than CAS-looping
	// until they become _Grunnable. And transitions like
	// _Gscanwaiting -> _Gscanrunnable are actually okay because
	// they don't affect stack ownership.

	// _Gidle means this goroutine was just allocated and has not
	// yet been initialized.
	_Gidle = iota // 0

	// _Grunnable means this goroutine is on a run queue. It is
	// not currently executing user code. The stack is not owned.
	_Grunnable // 1

	// _Grunning means this goroutine may execute user code. The
	// stack is owned by this goroutine. It is not on a run queue.
	// It is assigned an M (g.m is valid) and it usually has a P
	// (g.m.p is valid), but there are small windows of time where
	// it might not, namely upon entering and exiting _Gsyscall.
	_Grunning // 2

	// _Gsyscall means this goroutine is executing a system call.
	// It is not executing user code. The stack is owned by this
	// goroutine. It is not on a run queue. It is assigned an M.
	// It may have a P attached, but it does not own it. Code
	// executing in this state must not touch g.m.p.
	_Gsyscall // 3

	// _Gwaiting means this goroutine is blocked in the runtime.
	// It is not executing user code. It is not on a run queue,
	// but should be recorded somewhere (e.g., a channel wait
	// queue) so it can be ready()d when necessary. The stack is
	// not owned *except* that a channel operation may read or
	// write parts of the stack under the appropriate channel
	// lock. Otherwise, it is not safe to access the stack after a
	// goroutine enters _Gwaiting (e.g., it may get moved).
	_Gwaiting // 4

	// _Gmoribund_unused is currently unused, but hardcoded in gdb
	// scripts.
	_Gmoribund_unused // 5

	// _Gdead means this goroutine is currently unused. It may be
	// just exited, on a free list, or just being initialized. It
	// is not executing user code. It may or may not have a stack
	// allocated. The G and its stack (if any) are owned by the M
	// that is exiting the G or that obtained the G from the free
	// list.
	_Gdead // 6

	// _Genqueue_unused is currently unused.
	_Genqueue_unused // 7

	// _Gcopystack means this goroutine's stack is being moved. It
	// is not executing user code and is not on a run queue. The
	// stack is owned by the goroutine that put it in _Gcopystack.
	_Gcopystack // 8

	// _Gpreempted means this goroutine stopped itself for a
	// suspendG preemption. It is like _Gwaiting, but nothing is
	// yet responsible for ready()ing it. Some suspendG must CAS
	// the status to _Gwaiting to take responsibility for
	// ready()ing this G.
	_Gpreempted // 9

	// _Gleaked represents a leaked goroutine caught by the GC.
	_Gleaked // 10

	// _Gdeadextra is a _Gdead goroutine that's attached to an extra M
	// used for cgo callbacks.
	_Gdeadextra // 11

	// _Gscan combined with one of the above states other than
	// _Grunning indicates that GC is scanning the stack. The
	// goroutine is not executing user code and the stack is owned
	// by the goroutine that set the _Gscan bit.
	//
	// _Gscanrunning is different: it is used to briefly block
	// state transitions while GC signals the G to scan its own
	// stack. This is otherwise like _Grunning.
	//
	// atomicstatus&~Gscan gives the state the goroutine will
	// return to when the scan completes.
	_Gscan          = 0x1000
	_Gscanrunnable  = _Gscan + _Grunnable  // 0x1001
	_Gscanrunning   = _Gscan + _Grunning   // 0x1002
	_Gscansyscall   = _Gscan + _Gsyscall   // 0x1003
	_Gscanwaiting   = _Gscan + _Gwaiting   // 0x1004
	_Gscanpreempted = _Gscan + _Gpreempted // 0x1009
	_Gscanleaked    = _Gscan + _Gleaked    // 0x100a
	_Gscandeadextra = _Gscan + _Gdeadextra // 0x100b
)

const (
	// P status

	// _Pidle means a P is not being used to run user code or the
	// scheduler. Typically, it's on the idle P list and available
	// to the scheduler, but it may just be transitioning between
	// other states.
	//
	// The P is owned by the idle list or by whatever is
	// transitioning its state. Its run queue is empty.
	_Pidle = iota

	// _Prunning means a P is owned by an M and is being used to
	// run user code or the scheduler. Only the M that owns this P
	// is allowed to change the P's status from _Prunning. The M
	// may transition the P to _Pidle (if it has no more work to
	// do), or _Pgcstop (to halt for the GC). The M may also hand
	// ownership of the P off directly to another M (for example,
	// to schedule a locked G).
	_Prunning

	// _Psyscall_unused is a now-defunct state for a P. A P is
	// identified as "in a system call" by looking at the goroutine's
	// state.
	_Psyscall_unused

	// _Pgcstop means a P is halted for STW and owned by the M
	// that stopped the world. The M that stopped the world
	// continues to use its P, even in _Pgcstop. Transitioning
	// from _Prunning to _Pgcstop causes an M to release its P and
	// park.
	//
	// The P retains its run queue and startTheWorld will restart
	// the scheduler on Ps with non-empty run queues.
	_Pgcstop

	// _Pdead means a P is no longer used (GOMAXPROCS shrank). We
	// reuse Ps if GOMAXPROCS increases. A dead P is mostly
	// stripped of its resources, though a few things remain
	// (e.g., trace buffers).
	_Pdead
)

// Mutual exclusion locks.  In the uncontended case,
// as fast as spin locks (just a few user-level instructions),
// but on the contention path they sleep in the kernel.
// A zeroed Mutex is unlocked (no need to initialize each lock).
// Initialization is helpful for static lock ranking, but not required.
type mutex struct {
	// Empty struct if lock ranking is disabled, otherwise includes the lock rank
	lockRankStruct
	// Futex-based impl treats it as uint32 key,
	// while sema-based impl as M* waitm.
	// Used to be a union, but unions break precise GC.
	key uintptr
}

type funcval struct {
	fn uintptr
	// variable-size, fn-specific data here
}

type iface struct {
	tab  *itab
	data unsafe.Pointer
}

type eface struct {
	_type *_type
	data  unsafe.Pointer
}

func efaceOf(ep *any) *eface {
	return (*eface)(unsafe.Pointer(ep))
}

// The guintptr, muintptr, and puintptr are all used to bypass write barriers.
// It is particularly important to avoid write barriers when the current P has
// been released, because the GC thinks the world is stopped, and an
// unexpected write barrier would not be synchronized with the GC,
// which can lead to a half-executed write barrier that has marked the object
// but not queued it. If the GC skips the object and completes before the
// queuing can occur, it will incorrectly free the object.
//
// We tried using special assignment functions invoked only when not
// holding a running P, but then some updates to a particular memory
// word went through write barriers and some did not. This breaks the
// write barrier shadow checking mode, and it is also scary: better to have
// a word that is completely ignored by the GC than to have one for which
// only a few updates are ignored.
//
// Gs and Ps are always reachable via true pointers in the
// allgs and allp lists or (during allocation before they reach those lists)
// from stack variables.
//
// Ms are always reachable via true pointers either from allm or
// freem. Unlike Gs and Ps we do free Ms, so it's important that
// nothing ever hold an muintptr across a safe point.

// A guintptr holds a goroutine pointer, but typed as a uintptr
// to bypass write barriers. It is used in the Gobuf goroutine state
// and in scheduling lists that are manipulated without a P.
//
// The Gobuf.g goroutine pointer is almost always updated by assembly code.
// In one of the few places it is updated by Go code - func save - it must be
// treated as a uintptr to avoid a write barrier being emitted at a bad time.
// Instead of figuring out how to emit the write barriers missing in the
// assembly manipulation, we change the type of the field to uintptr,
// so that it does not require write barriers at all.
//
// Goroutine structs are published in the allg list and never freed.
// That will keep the goroutine structs from being collected.
// There is never a time that Gobuf.g's contain the only references
// to a goroutine: the publishing of the goroutine in allg comes first.
// Goroutine pointers are also kept in non-GC-visible places like TLS,
// so I can't see them ever moving. If we did want to start moving data
// in the GC, we'd need to allocate the goroutine structs from an
// alternate arena. Using guintptr doesn't make that problem any worse.
// Note that pollDesc.rg, pollDesc.wg also store g in uintptr form,
// so they would need to be updated too if g's start moving.
type guintptr uintptr

//go:nosplit
func (gp guintptr) ptr() *g { return (*g)(unsafe.Pointer(gp)) }

//go:nosplit
func (gp *guintptr) set(g *g) { *gp = guintptr(unsafe.Pointer(g)) }

//go:nosplit
func (gp *guintptr) cas(old, new guintptr) bool {
	return atomic.Casuintptr((*uintptr)(unsafe.Pointer(gp)), uintptr(old), uintptr(new))
}

//go:nosplit
func (gp *g) guintptr() guintptr {
	return guintptr(unsafe.Pointer(gp))
}

// setGNoWB performs *gp = new without a write barrier.
// For times when it's impractical to use a guintptr.
//
//go:nosplit
//go:nowritebarrier
func setGNoWB(gp **g, new *g) {
	(*guintptr)(unsafe.Pointer(gp)).set(new)
}

type puintptr uintptr

//go:nosplit
func (pp puintptr) ptr() *p { return (*p)(unsafe.Pointer(pp)) }

//go:nosplit
func (pp *puintptr) set(p *p) { *pp = puintptr(unsafe.Pointer(p)) }

// muintptr is a *m that is not tracked by the garbage collector.
//
// Because we do free Ms, there are some additional constrains on
// muintptrs:
//
//  1. Never hold an muintptr locally across a safe point.
//
//  2. Any muintptr in the heap must be owned by the M itself so it can
//     ensure it is not in use when the last true *m is released.
type muintptr uintptr

//go:nosplit
func (mp muintptr) ptr() *m { return (*m)(unsafe.Pointer(mp)) }

//go:nosplit
func (mp *muintptr) set(m *m) { *mp = muintptr(unsafe.Pointer(m)) }

// setMNoWB performs *mp = new without a write barrier.
// For times when it's impractical to use an muintptr.
//
//go:nosplit
//go:nowritebarrier
func setMNoWB(mp **m, new *m) {
	(*muintptr)(unsafe.Pointer(mp)).set(new)
}

type gobuf struct {
	// The offsets of sp, pc, and g are known to (hard-coded in) libmach.
	//
	// ctxt is unusual with respect to GC: it may be a
	// heap-allocated funcval, so GC needs to track it, but it
	// needs to be set and cleared from assembly, where it's
	// difficult to have write barriers. However, ctxt is really a
	// saved, live register, and we only ever exchange it between
	// the real register and the gobuf. Hence, we treat it as a
	// root during stack scanning, which means assembly that saves
	// and restores it doesn't need write barriers. It's still
	// typed as a pointer so that any other writes from Go get
	// write barriers.
	sp   uintptr
	pc   uintptr
	g    guintptr
	ctxt unsafe.Pointer
	lr   uintptr
	bp   uintptr // for framepointer-enabled architectures
}

// maybeTraceablePtr is a special pointer that is conditionally trackable
// by the GC. It consists of an address as a uintptr (vu) and a pointer
// to a data element (vp).
//
// maybeTraceablePtr values can be in one of three states:
// 1. Unset: vu == 0 && vp == nil
// 2. Untracked: vu != 0 && vp == nil
// 3. Tracked: vu != 0 && vp != nil
//
// Do not set fields manually. Use methods instead.
// Extend this type with additional methods if needed.
type maybeTraceablePtr struct {
	vp unsafe.Pointer // For liveness only.
	vu uintptr        // Source of truth.
}

// untrack unsets the pointer but preserves the address.
// This is used to hide the pointer from the GC.
//
//go:nosplit
func (p *maybeTraceablePtr) setUntraceable() {
	p.vp = nil
}

// setTraceable resets the pointer to the stored address.
// This is used to make the pointer visible to the GC.
//
//go:nosplit
func (p *maybeTraceablePtr) setTraceable() {
	p.vp = unsafe.Pointer(p.vu)
}

// set sets the pointer to the data element and updates the address.
//
//go:nosplit
func (p *maybeTraceablePtr) set(v unsafe.Pointer) {
	p.vp = v
	p.vu = uintptr(v)
}

// get retrieves the pointer to the data element.
//
//go:nosplit
func (p *maybeTraceablePtr) get() unsafe.Pointer {
	return unsafe.Pointer(p.vu)
}

// uintptr returns the uintptr address of the pointer.
//
//go:nosplit
func (p *maybeTraceablePtr) uintptr() uintptr {
	return p.vu
}

// maybeTraceableChan extends conditionally trackable pointers (maybeTraceablePtr)
// to track hchan pointers.
//
// Do not set fields manually. Use methods instead.
type maybeTraceableChan struct {
	maybeTraceablePtr
}

//go:nosplit
func (p *maybeTraceableChan) set(c *hchan) {
	p.maybeTraceablePtr.set(unsafe.Pointer(c))
}

//go:nosplit
func (p *maybeTraceableChan) get() *hchan {
	return (*hchan)(p.maybeTraceablePtr.get())
}

// sudog (pseudo-g) represents a g in a wait list, such as for sending/receiving
// on a channel.
//
// sudog is necessary because the g ↔ synchronization object relation
// is many-to-many. A g can be on many wait lists, so there may be
// many sudogs for one g; and many gs may be waiting on the same
// synchronization object, so there may be many sudogs for one object.
//
// sudogs are allocated from a special pool. Use acquireSudog and
// releaseSudog to allocate and free them.
type sudog struct {
	// The following fields are protected by the hchan.lock of the
	// channel this sudog is blocking on. shrinkstack depends on
	// this for sudogs involved in channel ops.

	g *g

	next *sudog
	prev *sudog

	elem maybeTraceablePtr // data element (may point to stack)

	// The following fields are never accessed concurrently.
	// For channels, waitlink is only accessed by g.
	// For semaphores, all fields (including the ones above)
	// are only accessed when holding a semaRoot lock.

	acquiretime int64
	releasetime int64
	ticket      uint32

	// isSelect indicates g is participating in a select, so
	// g.selectDone must be CAS'd to win the wake-up race.
	isSelect bool

	// success indicates whether communication over channel c
	// succeeded. It is true if the goroutine was awoken because a
	// value was delivered over channel c, and false if awoken
	// because c was closed.
	success bool

	// waiters is a count of semaRoot waiting list other than head of list,
	// clamped to a uint16 to fit in unused space.
	// Only meaningful at the head of the list.
	// (If we wanted to be overly clever, we could store a high 16 bits
	// in the second entry in the list.)
	waiters uint16

	parent   *sudog             // semaRoot binary tree
	waitlink *sudog             // g.waiting list or semaRoot
	waittail *sudog             // semaRoot
	c        maybeTraceableChan // channel
}

type libcall struct {
	fn   uintptr
	n    uintptr // number of parameters
	args uintptr // parameters
	r1   uintptr // return values
	r2   uintptr
	err  uintptr // error number
}

// Stack describes a Go execution stack.
// The bounds of the stack are exactly [lo, hi),
// with no implicit data structures on either side.
type stack struct {
	lo uintptr
	hi uintptr
}

// heldLockInfo gives info on a held lock and the rank of that lock
type heldLockInfo struct {
	lockAddr uintptr
	rank     lockRank
}

type g struct {
	// Stack parameters.
	// stack describes the actual stack memory: [stack.lo, stack.hi).
	// stackguard0 is the stack pointer compared in the Go stack growth prologue.
	// It is stack.lo+StackGuard normally, but can be StackPreempt to trigger a preemption.
	// stackguard1 is the stack pointer compared in the //go:systemstack stack growth prologue.
	// It is stack.lo+StackGuard on g0 and gsignal stacks.
	// It is ~0 on other goroutine stacks, to trigger a call to morestackc (and crash).
	stack       stack   // offset known to runtime/cgo
	stackguard0 uintptr // offset known to liblink
	stackguard1 uintptr // offset known to liblink

	_panic    *_panic // innermost panic - offset known to liblink
	_defer    *_defer // innermost defer
	m         *m      // current m; offset known to arm liblink
	sched     gobuf
	syscallsp uintptr // if status==Gsyscall, syscallsp = sched.sp to use during gc
	syscallpc uintptr // if status==Gsyscall, syscallpc = sched.pc to use during gc
	syscallbp uintptr // if status==Gsyscall, syscallbp = sched.bp to use in fpTraceback
	stktopsp  uintptr // expected sp at top of stack, to check in traceback
	// param is a generic pointer parameter field used to pass
	// values in particular contexts where other storage for the
	// parameter would be difficult to find. It is currently used
	// in four ways:
	// 1. When a channel operation wakes up a blocked goroutine, it sets param to
	//    point to the sudog of the completed blocking operation.
	// 2. By gcAssistAlloc1 to signal back to its caller that the goroutine completed
	//    the GC cycle. It is unsafe to do so in any other way, because the goroutine's
	//    stack may have moved in the meantime.
	// 3. By debugCallWrap to pass parameters to a new goroutine because allocating a
	//    closure in the runtime is forbidden.
	// 4. When a panic is recovered and control returns to the respective frame,
	//    param may point to a savedOpenDeferState.
	param        unsafe.Pointer
	atomicstatus atomic.Uint32
	stackLock    uint32 // sigprof/scang lock; TODO: fold in to atomicstatus
	goid         uint64
	schedlink    guintptr
	waitsince    int64      // approx time when the g become blocked
	waitreason   waitReason // if status==Gwaiting

	preempt       bool // preemption signal, duplicates stackguard0 = stackpreempt
	preemptStop   bool // transition to _Gpreempted on preemption; otherwise, just deschedule
	preemptShrink bool // shrink stack at synchronous safe point

	// asyncSafePoint is set if g is stopped at an asynchronous
	// safe point. This means there are frames on the stack
	// without precise pointer information.
	asyncSafePoint bool

	paniconfault bool // panic (instead of crash) on unexpected fault address
	gcscandone   bool // g has scanned stack; protected by _Gscan bit in status
	throwsplit   bool // must not split stack
	// activeStackChans indicates that there are unlocked channels
	// pointing into this goroutine's stack. If true, stack
	// copying needs to acquire channel locks to protect these
	// areas of the stack.
	activeStackChans bool
	// parkingOnChan indicates that the goroutine is about to
	// park on a chansend or chanrecv. Used to signal an unsafe point
	// for stack shrinking.
	parkingOnChan atomic.Bool
	// inMarkAssist indicates whether the goroutine is in mark assist.
	// Used by the execution tracer.
	inMarkAssist bool
	coroexit     bool // argument to coroswitch_m

	raceignore      int8  // ignore race detection events
	nocgocallback   bool  // whether disable callback from C
	tracking        bool  // whether we're tracking this G for sched latency statistics
	trackingSeq     uint8 // used to decide whether to track this G
	trackingStamp   int64 // timestamp of when the G last started being tracked
	runnableTime    int64 // the amount of time spent runnable, cleared when running, only used when tracking
	lockedm         muintptr
	fipsIndicator   uint8
	fipsOnlyBypass  bool
	ditWanted       bool // set if g wants to be executed with DIT enabled
	syncSafePoint   bool // set if g is stopped at a synchronous safe point.
	runningCleanups atomic.Bool
	sig             uint32
	secret          int32 // current nesting of runtime/secret.Do calls.
	writebuf        []byte
	sigcode0        uintptr
	sigcode1        uintptr
	sigpc           uintptr
	parentGoid      uint64          // goid of goroutine that created this goroutine
	gopc            uintptr         // pc of go statement that created this goroutine
	ancestors       *[]ancestorInfo // ancestor information goroutine(s) that created this goroutine (only used if debug.tracebackancestors)
	startpc         uintptr         // pc of goroutine function
	racectx         uintptr
	waiting         *sudog         // sudog structures this g is waiting on (that have a valid elem ptr); in lock order
	cgoCtxt         []uintptr      // cgo traceback context
	labels          unsafe.Pointer // profiler labels
	timer           *timer         // cached timer for time.Sleep
	sleepWhen       int64          // when to sleep until
	selectDone      atomic.Uint32  // are we participating in a select and did someone win the race?

	// goroutineProfiled indicates the status of this goroutine's stack for the
	// current in-progress goroutine profile
	goroutineProfiled goroutineProfileStateHolder

	coroarg *coro // argument during coroutine transfers
	bubble  *synctestBubble
	simNoYield bool // (sim) this goroutine never parks at a gate

	// xRegs stores the extended register state if this G has been
	// asynchronously preempted.
	xRegs xRegPerG

	// Per-G tracer state.
	trace gTraceState

	// Per-G GC state

	// gcAssistBytes is this G's GC assist credit in terms of
	// bytes allocated. If this is positive, then the G has credit
	// to allocate gcAssistBytes bytes without assisting. If this
	// is negative, then the G must correct this by performing
	// scan work. We track this in bytes to make it fast to update
	// and check for debt in the malloc hot path. The assist ratio
	// determines how this corresponds to scan work debt.
	gcAssistBytes int64

	// valgrindStackID is used to track what memory is used for stacks when a program is
	// built with the "valgrind" build tag, otherwise it is unused.
	valgrindStackID uintptr
}

// gTrackingPeriod is the number of transitions out of _Grunning between
// latency tracking runs.
const gTrackingPeriod = 8

const (
	// tlsSlots is the number of pointer-sized slots reserved for TLS on some platforms,
	// like Windows.
	tlsSlots = 6
	tlsSize  = tlsSlots * goarch.PtrSize
)

// Values for m.freeWait.
const (
	freeMStack = 0 // M done, free stack and reference.
	freeMRef   = 1 // M done, free reference.
	freeMWait  = 2 // M still in use.
)

type m struct {
	g0      *g     // goroutine with scheduling stack
	morebuf gobuf  // gobuf arg to morestack
	divmod  uint32 // div/mod denominator for arm - known to liblink (cmd/internal/obj/arm/obj5.go)

	// Fields whose offsets are not known to debuggers.

	procid       uint64            // for debuggers, but offset not hard-coded
	gsignal      *g                // signal-handling g
	goSigStack   gsignalStack      // Go-allocated signal handling stack
	sigmask      sigset            // storage for saved signal mask
	tls          [tlsSlots]uintptr // thread-local storage (for x86 extern register)
	mstartfn     func()
	curg         *g       // current running goroutine
	caughtsig    guintptr // goroutine running during fatal signal
	signalSecret uint32   // whether we have secret information in our signal stack

	// p is the currently attached P for executing Go code, nil if not executing user Go code.
	//
	// A non-nil p implies exclusive ownership of the P, unless curg is in _Gsyscall.
	// In _Gsyscall the scheduler may mutate this instead. The point of synchronization
	// is the _Gscan bit on curg's status. The scheduler must arrange to prevent curg
	// from transitioning out of _Gsyscall if it intends to mutate p.
	p puintptr

	nextp           puintptr // The next P to install before executing. Implies exclusive ownership of this P.
	oldp            puintptr // The P that was attached before executing a syscall.
	id              int64
	mallocing       int32
	throwing        throwType
	preemptoff      string // if != "", keep curg running on this m
	locks           int32
	dying           int32
	profilehz       int32
	spinning        bool // m is out of work and is actively looking for work
	blocked         bool // m is blocked on a note
	newSigstack     bool // minit on C thread called sigaltstack
	printlock       int8
	incgo           bool          // m is executing a cgo call
	isextra         bool          // m is an extra m
	isExtraInC      bool          // m is an extra m that does not have any Go frames
	isExtraInSig    bool          // m is an extra m in a signal handler
	freeWait        atomic.Uint32 // Whether it is safe to free g0 and delete m (one of freeMRef, freeMStack, freeMWait)
	needextram      bool
	g0StackAccurate bool // whether the g0 stack has accurate bounds
	traceback       uint8
	allpSnapshot    []*p          // Snapshot of allp for use after dropping P in findRunnable, nil otherwise.
	ncgocall        uint64        // number of cgo calls in total
	ncgo            int32         // number of cgo calls currently in progress
	cgoCallersUse   atomic.Uint32 // if non-zero, cgoCallers in use temporarily
	cgoCallers      *cgoCallers   // cgo traceback if crashing in cgo call
	park            note
	alllink         *m // on allm
	schedlink       muintptr
	idleNode        listNodeManual
	lockedg         guintptr
	createstack     [32]uintptr // stack that created this thread, it's used for StackRecord.Stack0, so it must align with it.
	lockedExt       uint32      // tracking for external LockOSThread
	lockedInt       uint32      // tracking for internal lockOSThread
	mWaitList       mWaitList   // list of runtime lock waiters
	ditEnabled      bool        // set if DIT is currently enabled on this M

	mLockProfile mLockProfile // fields relating to runtime.lock contention
	profStack    []uintptr    // used for memory/block/mutex stack traces

	// wait* are used to carry arguments from gopark into park_m, because
	// there's no stack to put them on. That is their sole purpose.
	waitunlockf          func(*g, unsafe.Pointer) bool
	waitlock             unsafe.Pointer
	waitTraceSkip        int
	waitTraceBlockReason traceBlockReason

	syscalltick uint32
	freelink    *m // on sched.freem
	trace       mTraceState

	// These are here to avoid using the G stack so the stack can move during the call.
	libcallpc  uintptr // for cpu profiler
	libcallsp  uintptr
	libcallg   guintptr
	winsyscall winlibcall // stores syscall parameters on windows

	vdsoSP uintptr // SP for traceback while in VDSO call (0 if not in call)
	vdsoPC uintptr // PC for traceback while in VDSO call

	// preemptGen counts the number of completed preemption
	// signals. This is used to detect when a preemption is
	// requested, but fails.
	preemptGen atomic.Uint32

	// Whether this is a pending preemption signal on this M.
	signalPending atomic.Uint32

	// pcvalue lookup cache
	pcvalueCache pcvalueCache

	dlogPerM

	mOS

	chacha8   chacha8rand.State
	cheaprand uint64

	// Up to 10 locks held by this m, maintained by the lock ranking code.
	locksHeldLen int
	locksHeld    [10]heldLockInfo

	// self points this M until mexit clears it to return nil.
	self mWeakPointer
}

const mRedZoneSize = (16 << 3) * asanenabledBit // redZoneSize(2048)

type mPadded struct {
	m

	// Size the runtime.m structure so it fits in the 2048-byte size class, and
	// not in the next-smallest (1792-byte) size class. That leaves the 11 low
	// bits of muintptr values available for flags, as required by
	// lock_spinbit.go.
	_ [(1 - goarch.IsWasm) * (2048 - mallocHeaderSize - mRedZoneSize - unsafe.Sizeof(m{}))]byte
}

// mWeakPointer is a "weak" pointer to an M. A weak pointer for each M is
// available as m.self. Users may copy mWeakPointer arbitrarily, and get will
// return the M if it is still live, or nil after mexit.
//
// The zero value is treated as a nil pointer.
//
// Note that get may race with M exit. A successful get will keep the m object
// alive, but the M itself may be exited and thus not actually usable.
type mWeakPointer struct {
	m *atomic.Pointer[m]
}

func newMWeakPointer(mp *m) mWeakPointer {
	w := mWeakPointer{m: new(atomic.Pointer[m])}
	w.m.Store(mp)
	return w
}

func (w mWeakPointer) get() *m {
	if w.m == nil {
		return nil
	}
	return w.m.Load()
}

// clear sets the weak pointer to nil. It cannot be used on zero value
// mWeakPointers.
func (w mWeakPointer) clear() {
	w.m.Store(nil)
}

type p struct {
	id          int32
	status      uint32 // one of pidle/prunning/...
	link        puintptr
	schedtick   uint32     // incremented on every scheduler call
	syscalltick uint32     // incremented on every system call
	sysmontick  sysmontick // last tick observed by sysmon
	m           muintptr   // back-link to associated m (nil if idle)
	mcache      *mcache
	pcache      pageCache
	raceprocctx uintptr

	// oldm is the previous m this p ran on.
	//
	// We are not assosciated with this m, so we have no control over its
	// lifecycle. This value is an m.self object which points to the m
	// until the m exits.
	//
	// Note that this m may be idle, running, or exiting. It should only be
	// used with mgetSpecific, which will take ownership of the m only if
	// it is idle.
	oldm mWeakPointer

	deferpool    []*_defer // pool of available defer structs (see panic.go)
	deferpoolbuf [32]*_defer

	// Cache of goroutine ids, amortizes accesses to runtime·sched.goidgen.
	goidcache    uint64
	goidcacheend uint64

	// Queue of runnable goroutines. Accessed without lock.
	runqhead uint32
	runqtail uint32
	runq     [256]guintptr
	// runnext, if non-nil, is a runnable G that was ready'd by
	// the current G and should be run next instead of what's in
	// runq if there's time remaining in the running G's time
	// slice. It will inherit the time left in the current time
	// slice. If a set of goroutines is locked in a
	// communicate-and-wait pattern, this schedules that set as a
	// unit and eliminates the (potentially large) scheduling
	// latency that otherwise arises from adding the ready'd
	// goroutines to the end of the run queue.
	//
	// Note that while other P's may atomically CAS this to zero,
	// only the owner P can CAS it to a valid G.
	runnext guintptr

	// Available G's (status == Gdead)
	gFree gList

	sudogcache []*sudog
	sudogbuf   [128]*sudog

	// Cache of mspan objects from the heap.
	mspancache struct {
		// We need an explicit length here because this field is used
		// in allocation codepaths where write barriers are not allowed,
		// and eliminating the write barrier/keeping it eliminated from
		// slice updates is tricky, more so than just managing the length
		// ourselves.
		len int
		buf [128]*mspan
	}

	// Cache of a single pinner object to reduce allocations from repeated
	// pinner creation.
	pinnerCache *pinner

	trace pTraceState

	palloc persistentAlloc // per-P to avoid mutex

	// Per-P GC state
	gcAssistTime         int64        // Nanoseconds in assistAlloc
	gcFractionalMarkTime atomic.Int64 // Nanoseconds in fractional mark worker

	// limiterEvent tracks events for the GC CPU limiter.
	limiterEvent limiterEvent

	// gcMarkWorkerMode is the mode for the next mark worker to run in.
	// That is, this is used to communicate with the worker goroutine
	// selected for immediate execution by
	// gcController.findRunnableGCWorker. When scheduling other goroutines,
	// this field must be set to gcMarkWorkerNotWorker.
	gcMarkWorkerMode gcMarkWorkerMode
	// gcMarkWorkerStartTime is the nanotime() at which the most recent
	// mark worker started.
	gcMarkWorkerStartTime int64

	// nextGCMarkWorker is the next mark worker to run. This may be set
	// during start-the-world to assign a worker to this P. The P runs this
	// worker on the next call to gcController.findRunnableGCWorker. If the
	// P runs something else or stops, it must release this worker via
	// gcController.releaseNextGCMarkWorker.
	//
	// See comment in gcBgMarkWorker about the lifetime of
	// gcBgMarkWorkerNode.
	//
	// Only accessed by this P or during STW.
	nextGCMarkWorker *gcBgMarkWorkerNode

	// gcw is this P's GC work buffer cache. The work buffer is
	// filled by write barriers, drained by mutator assists, and
	// disposed on certain GC state transitions.
	gcw gcWork

	// wbBuf is this P's GC write barrier buffer.
	//
	// TODO: Consider caching this in the running G.
	wbBuf wbBuf

	runSafePointFn uint32 // if 1, run sched.safePointFn at next safe point

	// statsSeq is a counter indicating whether this P is currently
	// writing any stats. Its value is even when not, odd when it is.
	statsSeq atomic.Uint32

	// Timer heap.
	timers timers

	// Cleanups.
	cleanups       *cleanupBlock
	cleanupsQueued uint64 // monotonic count of cleanups queued by this P

	// maxStackScanDelta accumulates the amount of stack space held by
	// live goroutines (i.e. those eligible for stack scanning).
	// Flushed to gcController.maxStackScan once maxStackScanSlack
	// or -maxStackScanSlack is reached.
	maxStackScanDelta int64

	// gc-time statistics about current goroutines
	// Note that this differs from maxStackScan in that this
	// accumulates the actual stack observed to be used at GC time (hi - sp),
	// not an instantaneous measure of the total stack size that might need
	// to be scanned (hi - lo).
	scannedStackSize uint64 // stack size of goroutines scanned by this P
	scannedStacks    uint64 // number of goroutines scanned by this P

	// preempt is set to indicate that this P should be enter the
	// scheduler ASAP (regardless of what G is running on it).
	preempt bool

	// gcStopTime is the nanotime timestamp that this P last entered _Pgcstop.
	gcStopTime int64

	// goroutinesCreated is the total count of goroutines created by this P.
	goroutinesCreated uint64

	// xRegs is the per-P extended register state used by asynchronous
	// preemption. This is an empty struct on platforms that don't use extended
	// register state.
	xRegs xRegPerP

	// Padding is no longer needed. False sharing is now not a worry because p is large enough
	// that its size class is an integer multiple of the cache line size (for any of our architectures).
}

type schedt struct {
	goidgen    atomic.Uint64
	lastpoll   atomic.Int64 // time of last network poll, 0 if currently polling
	pollUntil  atomic.Int64 // time to which current poll is sleeping
	pollingNet atomic.Int32 // 1 if some P doing non-blocking network poll

	lock mutex

	// When increasing nmidle, nmidlelocked, nmsys, or nmfreed, be
	// sure to call checkdead().

	midle        listHeadManual // idle m's waiting for work
	nmidle       int32          // number of idle m's waiting for work
	nmidlelocked int32          // number of locked m's waiting for work
	mnext        int64          // number of m's that have been created and next M ID
	maxmcount    int32          // maximum number of m's allowed (or die)
	nmsys        int32          // number of system m's not counted for deadlock
	nmfreed      int64          // cumulative number of freed m's

	ngsys        atomic.Int32 // number of system goroutines
	nGsyscallNoP atomic.Int32 // number of goroutines in syscalls without a P but whose M is not isExtraInC

	pidle        puintptr // idle p's
	npidle       atomic.Int32
	nmspinning   atomic.Int32  // See "Worker thread parking/unparking" comment in proc.go.
	needspinning atomic.Uint32 // See "Delicate dance" comment in proc.go. Boolean. Must hold sched.lock to set to 1.

	// Global runnable queue.
	runq gQueue

	// disable controls selective disabling of the scheduler.
	//
	// Use schedEnableUser to control this.
	//
	// disable is protected by sched.lock.
	disable struct {
		// user disables scheduling of user goroutines.
		user     bool
		runnable gQueue // pending runnable Gs
	}

	// Global cache of dead G's.
	gFree struct {
		lock    mutex
		stack   gList // Gs with stacks
		noStack gList // Gs without stacks
	}

	// Central cache of sudog structs.
	sudoglock  mutex
	sudogcache *sudog

	// Central pool of available defer structs.
	deferlock mutex
	deferpool *_defer

	// freem is the list of m's waiting to be freed when their
	// m.exited is set. Linked through m.freelink.
	freem *m

	gcwaiting  atomic.Bool // gc is waiting to run
	stopwait   int32
	stopnote   note
	sysmonwait atomic.Bool
	sysmonnote note

	// safePointFn should be called on each P at the next GC
	// safepoint if p.runSafePointFn is set.
	safePointFn   func(*p)
	safePointWait int32
	safePointNote note

	profilehz int32 // cpu profiling rate

	procresizetime int64 // nanotime() of last change to gomaxprocs
	totaltime      int64 // ∫gomaxprocs dt up to procresizetime

	customGOMAXPROCS bool // GOMAXPROCS was manually set from the environment or runtime.GOMAXPROCS

	// sysmonlock protects sysmon's actions on the runtime.
	//
	// Acquire and hold this mutex to block sysmon from interacting
	// with the rest of the runtime.
	sysmonlock mutex

	// timeToRun is a distribution of scheduling latencies, defined
	// as the sum of time a G spends in the _Grunnable state before
	// it transitions to _Grunning.
	timeToRun timeHistogram

	// idleTime is the total CPU time Ps have "spent" idle.
	//
	// Reset on each GC cycle.
	idleTime atomic.Int64

	// totalMutexWaitTime is the sum of time goroutines have spent in _Gwaiting
	// with a waitreason of the form waitReasonSync{RW,}Mutex{R,}Lock.
	totalMutexWaitTime atomic.Int64

	// stwStoppingTimeGC/Other are distributions of stop-the-world stopping
	// latencies, defined as the time taken by stopTheWorldWithSema to get
	// all Ps to stop. stwStoppingTimeGC covers all GC-related STWs,
	// stwStoppingTimeOther covers the others.
	stwStoppingTimeGC    timeHistogram
	stwStoppingTimeOther timeHistogram

	// stwTotalTimeGC/Other are distributions of stop-the-world total
	// latencies, defined as the total time from stopTheWorldWithSema to
	// startTheWorldWithSema. This is a superset of
	// stwStoppingTimeGC/Other. stwTotalTimeGC covers all GC-related STWs,
	// stwTotalTimeOther covers the others.
	stwTotalTimeGC    timeHistogram
	stwTotalTimeOther timeHistogram

	// totalRuntimeLockWaitTime (plus the value of lockWaitTime on each M in
	// allm) is the sum of time goroutines have spent in _Grunnable and with an
	// M, but waiting for locks within the runtime. This field stores the value
	// for Ms that have exited.
	totalRuntimeLockWaitTime atomic.Int64

	// goroutinesCreated (plus the value of goroutinesCreated on each P in allp)
	// is the sum of all goroutines created by the program.
	goroutinesCreated atomic.Uint64
}

// Values for the flags field of a sigTabT.
const (
	_SigNotify   = 1 << iota // let signal.Notify have signal, even if from kernel
	_SigKill                 // if signal.Notify doesn't take it, exit quietly
	_SigThrow                // if signal.Notify doesn't take it, exit loudly
	_SigPanic                // if the signal is from the kernel, panic
	_SigDefault              // if the signal isn't explicitly requested, don't monitor it
	_SigGoExit               // cause all runtime procs to exit (only used on Plan 9).
	_SigSetStack             // Don't explicitly install handler, but add SA_ONSTACK to existing libc handler
	_SigUnblock              // always unblock; see blockableSig
	_SigIgn                  // _SIG_DFL action is to ignore the signal
)

// Layout of in-memory per-function information prepared by linker
// See https://golang.org/s/go12symtab.
// Keep in sync with linker (../cmd/link/internal/ld/pcln.go:/pclntab)
// and with package debug/gosym and with symtab.go in package runtime.
type _func struct {
	sys.NotInHeap // Only in static data

	entryOff uint32 // start pc, as offset from moduledata.text
	nameOff  int32  // function name, as index into moduledata.funcnametab.

	args        int32  // in/out args size
	deferreturn uint32 // offset of start of a deferreturn call instruction from entry, if any.

	pcsp      uint32
	pcfile    uint32
	pcln      uint32
	npcdata   uint32
	cuOffset  uint32     // runtime.cutab offset of this function's CU
	startLine int32      // line number of start of function (func keyword/TEXT directive)
	funcID    abi.FuncID // set for certain special runtime functions
	flag      abi.FuncFlag
	_         [1]byte // pad
	nfuncdata uint8   // must be last, must end on a uint32-aligned boundary

	// The end of the struct is followed immediately by two variable-length
	// arrays that reference the pcdata and funcdata locations for this
	// function.

	// pcdata contains the offset into moduledata.pctab for the start of
	// that index's table. e.g.,
	// &moduledata.pctab[_func.pcdata[_PCDATA_UnsafePoint]] is the start of
	// the unsafe point table.
	//
	// An offset of 0 indicates that there is no table.
	//
	// pcdata [npcdata]uint32

	// funcdata contains the offset past moduledata.gofunc which contains a
	// pointer to that index's funcdata. e.g.,
	// *(moduledata.gofunc +  _func.funcdata[_FUNCDATA_ArgsPointerMaps]) is
	// the argument pointer map.
	//
	// An offset of ^uint32(0) indicates that there is no entry.
	//
	// funcdata [nfuncdata]uint32
}

// Pseudo-Func that is returned for PCs that occur in inlined code.
// A *Func can be either a *_func or a *funcinl, and they are distinguished
// by the first uintptr.
//
// TODO(austin): Can we merge this with inlinedCall?
type funcinl struct {
	ones      uint32  // set to ^0 to distinguish from _func
	entry     uintptr // entry of the real (the "outermost") frame
	name      string
	file      string
	line      int32
	startLine int32
}

type itab = abi.ITab

// Lock-free stack node.
// Also known to export_test.go.
type lfnode struct {
	next    uint64
	pushcnt uintptr
}

type forcegcstate struct {
	lock mutex
	g    *g
	idle atomic.Bool
}

// A _defer holds an entry on the list of deferred calls.
// If you add a field here, add code to clear it in deferProcStack.
// This struct must match the code in cmd/compile/internal/ssagen/ssa.go:deferstruct
// and cmd/compile/internal/ssagen/ssa.go:(*state).call.
// Some defers will be allocated on the stack and some on the heap.
// All defers are logically part of the stack, so write barriers to
// initialize them are not required. All defers must be manually scanned,
// and for heap defers, marked.
type _defer struct {
	heap      bool
	rangefunc bool    // true for rangefunc list
	sp        uintptr // sp at time of defer
	pc        uintptr // pc at time of defer
	fn        func()  // can be nil for open-coded defers
	link      *_defer // next defer on G; can point to either heap or stack!

	// If rangefunc is true, *head is the head of the atomic linked list
	// during a range-over-func execution.
	head *atomic.Pointer[_defer]
}

// A _panic holds information about an active panic.
//
// A _panic value must only ever live on the stack.
//
// The gopanicFP and link fields are stack pointers, but don't need special
// handling during stack growth: because they are pointer-typed and
// _panic values only live on the stack, regular stack pointer
// adjustment takes care of them.
type _panic struct {
	arg  any     // argument to panic
	link *_panic // link to earlier panic

	// startPC and startSP track where _panic.start was called.
	startPC uintptr
	startSP unsafe.Pointer

	// The current stack frame that we're running deferred calls for.
	sp unsafe.Pointer
	lr uintptr
	fp unsafe.Pointer

	// retpc stores the PC where the panic should jump back to, if the
	// function last returned by _panic.next() recovers the panic.
	retpc uintptr

	// Extra state for handling open-coded defers.
	deferBitsPtr *uint8
	slotsPtr     unsafe.Pointer

	recovered   bool // whether this panic has been recovered
	repanicked  bool // whether this panic repanicked
	goexit      bool
	deferreturn bool

	gopanicFP unsafe.Pointer // frame pointer of the gopanic frame
}

// savedOpenDeferState tracks the extra state from _panic that's
// necessary for deferreturn to pick up where gopanic left off,
// without needing to unwind the stack.
type savedOpenDeferState struct {
	retpc           uintptr
	deferBitsOffset uintptr
	slotsOffset     uintptr
}

// ancestorInfo records details of where a goroutine was started.
type ancestorInfo struct {
	pcs  []uintptr // pcs from the stack of this goroutine
	goid uint64    // goroutine id of this goroutine; original goroutine possibly dead
	gopc uintptr   // pc of go statement that created this goroutine
}

// A waitReason explains why a goroutine has been stopped.
// See gopark. Do not re-use waitReasons, add new ones.
type waitReason uint8

const (
	waitReasonZero                  waitReason = iota // ""
	waitReasonGCAssistMarking                         // "GC assist marking"
	waitReasonIOWait                                  // "IO wait"
	waitReasonDumpingHeap                             // "dumping heap"
	waitReasonGarbageCollection                       // "garbage collection"
	waitReasonGarbageCollectionScan                   // "garbage collection scan"
	waitReasonPanicWait                               // "panicwait"
	waitReasonGCAssistWait                            // "GC assist wait"
	waitReasonGCSweepWait                             // "GC sweep wait"
	waitReasonGCScavengeWait                          // "GC scavenge wait"
	waitReasonFinalizerWait                           // "finalizer wait"
	waitReasonForceGCIdle                             // "force gc (idle)"
	waitReasonUpdateGOMAXPROCSIdle                    // "GOMAXPROCS updater (idle)"
	waitReasonSemacquire                              // "semacquire"
	waitReasonSleep                                   // "sleep"
	waitReasonChanReceiveNilChan                      // "chan receive (nil chan)"
	waitReasonChanSendNilChan                         // "chan send (nil chan)"
	waitReasonSelectNoCases                           // "select (no cases)"
	waitReasonSelect                                  // "select"
	waitReasonChanReceive                             // "chan receive"
	waitReasonChanSend                                // "chan send"
	waitReasonSyncCondWait                            // "sync.Cond.Wait"
	waitReasonSyncMutexLock                           // "sync.Mutex.Lock"
	waitReasonSyncRWMutexRLock                        // "sync.RWMutex.RLock"
	waitReasonSyncRWMutexLock                         // "sync.RWMutex.Lock"
	waitReasonSyncWaitGroupWait                       // "sync.WaitGroup.Wait"
	waitReasonTraceReaderBlocked                      // "trace reader (blocked)"
	waitReasonWaitForGCCycle                          // "wait for GC cycle"
	waitReasonGCWorkerIdle                            // "GC worker (idle)"
	waitReasonGCWorkerActive                          // "GC worker (active)"
	waitReasonPreempted                               // "preempted"
	waitReasonDebugCall                               // "debug call"
	waitReasonGCMarkTermination                       // "GC mark termination"
	waitReasonStoppingTheWorld                        // "stopping the world"
	waitReasonFlushProcCaches                         // "flushing proc caches"
	waitReasonTraceGoroutineStatus                    // "trace goroutine status"
	waitReasonTraceProcStatus                         // "trace proc status"
	waitReasonPageTraceFlush                          // "page trace flush"
	waitReasonCoroutine                               // "coroutine"
	waitReasonGCWeakToStrongWait                      // "GC weak to strong wait"
	waitReasonSynctestRun                             // "synctest.Run"
	waitReasonSynctestWait                            // "synctest.Wait"
	waitReasonSynctestChanReceive                     // "chan receive (durable)"
	waitReasonSynctestChanSend                        // "chan send (durable)"
	waitReasonSynctestSelect                          // "select (durable)"
	waitReasonSynctestWaitGroupWait                   // "sync.WaitGroup.Wait (durable)"
	waitReasonCleanupWait                             // "cleanup wait"
)

var waitReasonStrings = [...]string{
	waitReasonZero:                  "",
	waitReasonGCAssistMarking:       "GC assist marking",
	waitReasonIOWait:                "IO wait",
	waitReasonChanReceiveNilChan:    "chan receive (nil chan)",
	waitReasonChanSendNilChan:       "chan send (nil chan)",
	waitReasonDumpingHeap:           "dumping heap",
	waitReasonGarbageCollection:     "garbage collection",
	waitReasonGarbageCollectionScan: "garbage collection scan",
	waitReasonPanicWait:             "panicwait",
	waitReasonSelect:                "select",
	waitReasonSelectNoCases:         "select (no cases)",
	waitReasonGCAssistWait:          "GC assist wait",
	waitReasonGCSweepWait:           "GC sweep wait",
	waitReasonGCScavengeWait:        "GC scavenge wait",
	waitReasonChanReceive:           "chan receive",
	waitReasonChanSend:              "chan send",
	waitReasonFinalizerWait:         "finalizer wait",
	waitReasonForceGCIdle:           "force gc (idle)",
	waitReasonUpdateGOMAXPROCSIdle:  "GOMAXPROCS updater (idle)",
	waitReasonSemacquire:            "semacquire",
	waitReasonSleep:                 "sleep",
	waitReasonSyncCondWait:          "sync.Cond.Wait",
	waitReasonSyncMutexLock:         "sync.Mutex.Lock",
	waitReasonSyncRWMutexRLock:      "sync.RWMutex.RLock",
	waitReasonSyncRWMutexLock:       "sync.RWMutex.Lock",
	waitReasonSyncWaitGroupWait:     "sync.WaitGroup.Wait",
	waitReasonTraceReaderBlocked:    "trace reader (blocked)",
	waitReasonWaitForGCCycle:        "wait for GC cycle",
	waitReasonGCWorkerIdle:          "GC worker (idle)",
	waitReasonGCWorkerActive:        "GC worker (active)",
	waitReasonPreempted:             "preempted",
	waitReasonDebugCall:             "debug call",
	waitReasonGCMarkTermination:     "GC mark termination",
	waitReasonStoppingTheWorld:      "stopping the world",
	waitReasonFlushProcCaches:       "flushing proc caches",
	waitReasonTraceGoroutineStatus:  "trace goroutine status",
	waitReasonTraceProcStatus:       "trace proc status",
	waitReasonPageTraceFlush:        "page trace flush",
	waitReasonCoroutine:             "coroutine",
	waitReasonGCWeakToStrongWait:    "GC weak to strong wait",
	waitReasonSynctestRun:           "synctest.Run",
	waitReasonSynctestWait:          "synctest.Wait",
	waitReasonSynctestChanReceive:   "chan receive (durable)",
	waitReasonSynctestChanSend:      "chan send (durable)",
	waitReasonSynctestSelect:        "select (durable)",
	waitReasonSynctestWaitGroupWait: "sync.WaitGroup.Wait (durable)",
	waitReasonCleanupWait:           "cleanup wait",
}

func (w waitReason) String() string {
	if w < 0 || w >= waitReason(len(waitReasonStrings)) {
		return "unknown wait reason"
	}
	return waitReasonStrings[w]
}

// isMutexWait returns true if the goroutine is blocked because of
// sync.Mutex.Lock or sync.RWMutex.[R]Lock.
//
//go:nosplit
func (w waitReason) isMutexWait() bool {
	return w == waitReasonSyncMutexLock ||
		w == waitReasonSyncRWMutexRLock ||
		w == waitReasonSyncRWMutexLock
}

// isSyncWait returns true if the goroutine is blocked because of
// sync library primitive operations.
//
//go:nosplit
func (w waitReason) isSyncWait() bool {
	return waitReasonSyncCondWait <= w && w <= waitReasonSyncWaitGroupWait
}

// isChanWait is true if the goroutine is blocked because of non-nil
// channel operations or a select statement with at least one case.
//
//go:nosplit
func (w waitReason) isChanWait() bool {
	return w == waitReasonSelect ||
		w == waitReasonChanReceive ||
		w == waitReasonChanSend
}

func (w waitReason) isWaitingForSuspendG() bool {
	return isWaitingForSuspendG[w]
}

// isWaitingForSuspendG indicates that a goroutine is only entering _Gwaiting and
// setting a waitReason because it needs to be able to let the suspendG
// (used by the GC and the execution tracer) take ownership of its stack.
// The G is always actually executing on the system stack in these cases.
//
// TODO(mknyszek): Consider replacing this with a new dedicated G status.
var isWaitingForSuspendG = [len(waitReasonStrings)]bool{
	waitReasonStoppingTheWorld:      true,
	waitReasonGCMarkTermination:     true,
	waitReasonGarbageCollection:     true,
	waitReasonGarbageCollectionScan: true,
	waitReasonTraceGoroutineStatus:  true,
	waitReasonTraceProcStatus:       true,
	waitReasonPageTraceFlush:        true,
	waitReasonGCAssistMarking:       true,
	waitReasonGCWorkerActive:        true,
	waitReasonFlushProcCaches:       true,
}

func (w waitReason) isIdleInSynctest() bool {
	return isIdleInSynctest[w]
}

// isIdleInSynctest indicates that a goroutine is considered idle by synctest.Wait.
var isIdleInSynctest = [len(waitReasonStrings)]bool{
	waitReasonChanReceiveNilChan:    true,
	waitReasonChanSendNilChan:       true,
	waitReasonSelectNoCases:         true,
	waitReasonSleep:                 true,
	waitReasonSyncCondWait:          true,
	waitReasonSynctestWaitGroupWait: true,
	waitReasonCoroutine:             true,
	waitReasonSynctestRun:           true,
	waitReasonSynctestWait:          true,
	waitReasonSynctestChanReceive:   true,
	waitReasonSynctestChanSend:      true,
	waitReasonSynctestSelect:        true,
	waitReasonSyncMutexLock:         true,
	waitReasonSyncRWMutexRLock:      true,
	waitReasonSyncRWMutexLock:       true,
}

var (
	// Linked-list of all Ms. Written under sched.lock, read atomically.
	allm *m

	gomaxprocs    int32
	numCPUStartup int32
	forcegc       forcegcstate
	sched         schedt
	newprocs      int32
)

var (
	// allpLock protects P-less reads and size changes of allp, idlepMask,
	// and timerpMask, and all writes to allp.
	allpLock mutex

	// len(allp) == gomaxprocs; may change at safe points, otherwise
	// immutable.
	allp []*p

	// Bitmask of Ps in _Pidle list, one bit per P. Reads and writes must
	// be atomic. Length may change at safe points.
	//
	// Each P must update only its own bit. In order to maintain
	// consistency, a P going idle must set the idle mask simultaneously with
	// updates to the idle P list under the sched.lock, otherwise a racing
	// pidleget may clear the mask before pidleput sets the mask,
	// corrupting the bitmap.
	//
	// N.B., procresize takes ownership of all Ps in stopTheWorldWithSema.
	idlepMask pMask

	// Bitmask of Ps that may have a timer, one bit per P. Reads and writes
	// must be atomic. Length may change at safe points.
	//
	// Ideally, the timer mask would be kept immediately consistent on any timer
	// operations. Unfortunately, updating a shared global data structure in the
	// timer hot path adds too much overhead in applications frequently switching
	// between no timers and some timers.
	//
	// As a compromise, the timer mask is updated only on pidleget / pidleput. A
	// running P (returned by pidleget) may add a timer at any time, so its mask
	// must be set. An idle P (passed to pidleput) cannot add new timers while
	// idle, so if it has no timers at that time, its mask may be cleared.
	//
	// Thus, we get the following effects on timer-stealing in findRunnable:
	//
	//   - Idle Ps with no timers when they go idle are never checked in findRunnable
	//     (for work- or timer-stealing; this is the ideal case).
	//   - Running Ps must always be checked.
	//   - Idle Ps whose timers are stolen must continue to be checked until they run
	//     again, even after timer expiration.
	//
	// When the P starts running again, the mask should be set, as a timer may be
	// added at any time.
	//
	// TODO(prattmic): Additional targeted updates may improve the above cases.
	// e.g., updating the mask when stealing a timer.
	timerpMask pMask
)

// goarmsoftfp is used by runtime/cgo assembly.
//
//go:linkname goarmsoftfp

var (
	// Pool of GC parked background workers. Entries are type
	// *gcBgMarkWorkerNode.
	gcBgMarkWorkerPool lfstack

	// Total number of gcBgMarkWorker goroutines. Protected by worldsema.
	gcBgMarkWorkerCount int32

	// Information about what cpu features are available.
	// Packages outside the runtime should not use these
	// as they are not an external api.
	// Set on startup in asm_{386,amd64}.s
	processorVersionInfo uint32
	isIntel              bool
)

// set by cmd/link on arm systems
// accessed using linkname by internal/runtime/atomic.
//
// goarm should be an internal detail,
// but widely used packages access it using linkname.
// Notable members of the hall of shame include:
//   - github.com/creativeprojects/go-selfupdate
//
// Do not remove or change the type signature.
// See go.dev/issue/67401.
//
//go:linkname goarm
var (
	goarm       uint8
	goarmsoftfp uint8
)

// Set by the linker so the runtime can determine the buildmode.
var (
	islibrary bool // -buildmode=c-shared
	isarchive bool // -buildmode=c-archive
)

// Must agree with internal/buildcfg.FramePointerEnabled.
const framepointer_enabled = GOARCH == "amd64" || GOARCH == "arm64"

// getcallerfp returns the frame pointer of the caller of the caller
// of this function.
//
//go:nosplit
//go:noinline
func getcallerfp() uintptr {
	fp := getfp() // This frame's FP.
	if fp != 0 {
		fp = *(*uintptr)(unsafe.Pointer(fp)) // The caller's FP.
		fp = *(*uintptr)(unsafe.Pointer(fp)) // The caller's caller's FP.
	}
	return fp
}
