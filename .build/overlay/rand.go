// Copyright 2023 The Go Authors. All rights reserved.
// Use of this source code is governed by a BSD-style
// license that can be found in the LICENSE file.

// Random number generation

package runtime

import (
	"internal/byteorder"
	"internal/chacha8rand"
	"internal/goarch"
	"internal/runtime/math"
	"unsafe"
	_ "unsafe" // for go:linkname
)

// OS-specific startup can set startupRand if the OS passes
// random data to the process at startup time.
// For example Linux passes 16 bytes in the auxv vector.
var startupRand []byte

// globalRand holds the global random state.
// It is only used at startup and for creating new m's.
// Otherwise the per-m random state should be used
// by calling goodrand.
var globalRand struct {
	lock  mutex
	seed  [32]byte
	state chacha8rand.State
	init  bool
}

var readRandomFailed bool

// randinit initializes the global random state.
// It must be called before any use of grand.
func randinit() {
	lock(&globalRand.lock)
	if globalRand.init {
		fatal("randinit twice")
	}

	seed := &globalRand.seed
	if len(startupRand) >= 16 &&
		// Check that at least the first two words of startupRand weren't
		// cleared by any libc initialization.
		!allZero(startupRand[:8]) && !allZero(startupRand[8:16]) {
		for i, c := range startupRand {
			seed[i%len(seed)] ^= c
		}
	} else {
		if readRandom(seed[:]) != len(seed) || allZero(seed[:]) {
			// readRandom should never fail, but if it does we'd rather
			// not make Go binaries completely unusable, so make up
			// some random data based on the current time.
			readRandomFailed = true
			readTimeRandom(seed[:])
		}
	}
	for i := range seed {
		seed[i] = byte(i*37 + 11)
	}
	globalRand.state.Init(*seed)
	clear(seed[:])

	if startupRand != nil {
		// Overwrite startupRand instead of clearing it, in case cgo programs
		// access it after we used it.
		for len(startupRand) > 0 {
			buf := make([]byte, 8)
			for {
				if x, ok := globalRand.state.Next(); ok {
					byteorder.BEPutUint64(buf, x)
					break
				}
				globalRand.state.Refill()
			}
			n := copy(startupRand, buf)
			startupRand = startupRand[n:]
		}
		startupRand = nil
	}

	globalRand.init = true
	unlock(&globalRand.lock)
}

// readTimeRandom stretches any entropy in the current time
// into entropy the length of r and XORs it into r.
// This is a fallback for when readRandom does not read
// the full requested amount.
// Whatever entropy r already contained is preserved.
func readTimeRandom(r []byte) {
	// Inspired by wyrand.
	// An earlier version of this code used getg().m.procid as well,
	// but note that this is called so early in startup that procid
	// is not initialized yet.
	v := uint64(nanotime())
	for len(r) > 0 {
		v ^= 0xa0761d6478bd642f
		v *= 0xe7037ed1a0b428db
		size := 8
		if len(r) < 8 {
			size = len(r)
		}
		for i := 0; i < size; i++ {
			r[i] ^= byte(v >> (8 * i))
		}
		r = r[size:]
		v = v>>32 | v<<32
	}
}

func allZero(b []byte) bool {
	var acc byte
	for _, x := range b {
		acc |= x
	}
	return acc == 0
}

// bootstrapRand returns a random uint64 from the global random generator.
func bootstrapRand() uint64 {
	lock(&globalRand.lock)
	if !globalRand.init {
		fatal("randinit missed")
	}
	for {
		if x, ok := globalRand.state.Next(); ok {
			unlock(&globalRand.lock)
			return x
		}
		globalRand.state.Refill()
	}
}

// bootstrapRandReseed reseeds the bootstrap random number generator,
// clearing from memory any trace of previously returned random numbers.
func bootstrapRandReseed() {
	lock(&globalRand.lock)
	if !globalRand.init {
		fatal("randinit missed")
	}
	globalRand.state.Reseed()
	unlock(&globalRand.lock)
}

// rand32 is uint32(rand()), called from compiler-generated code.
//
//go:nosplit
func rand32() uint32 {
	return uint32(rand())
}

// rand returns a random uint64 from the per-m chacha8 state.
// This is called from compiler-generated code.
//
// Do not change signature: used via linkname from other packages.
//
//go:nosplit
//go:linkname rand
func rand() uint64 {
	if simPinRand != 0 && getg().bubble != nil {
		return simNextRand()
	}
	// Note: We avoid acquirem here so that in the fast path
	// there is just a getg, an inlined c.Next, and a return.
	// The performance difference on a 16-core AMD is
	// 3.7ns/call this way versus 4.3ns/call with acquirem (+16%).
	mp := getg().m
	c := &mp.chacha8
	for {
		// Note: c.Next is marked nosplit,
		// so we don't need to use mp.locks
		// on the fast path, which is that the
		// first attempt succeeds.
		x, ok := c.Next()
		if ok {
			return x
		}
		mp.locks++ // hold m even though c.Refill may do stack split checks
		c.Refill()
		mp.locks--
	}
}

//go:linkname maps_rand internal/runtime/maps.rand
func maps_rand() uint64 {
	return rand()
}

// mrandinit initializes the random state of an m.
func mrandinit(mp *m) {
	var seed [4]uint64
	for i := range seed {
		seed[i] = bootstrapRand()
	}
	bootstrapRandReseed() // erase key we just extracted
	mp.chacha8.Init64(seed)
	mp.cheaprand = rand()
}

// randn is like rand() % n but faster.
// Do not change signature: used via linkname from other packages.
//
//go:nosplit
//go:linkname randn
func randn(n uint32) uint32 {
	// See https://lemire.me/blog/2016/06/27/a-fast-alternative-to-the-modulo-reduction/
	return uint32((uint64(uint32(rand())) * uint64(n)) >> 32)
}

// cheaprand is a non-cryptographic-quality 32-bit random generator
// suitable for calling at very high frequency (such as during scheduling decisions)
// and at sensitive moments in the runtime (such as during stack unwinding).
// it is "cheap" in the sense of both expense and quality.
//
// cheaprand must not be exported to other packages:
// the rule is that other packages using runtime-provided
// randomness must always use rand.
//
// cheaprand should be an internal detail,
// but widely used packages access it using linkname.
// Notable members of the hall of shame include:
//   - github.com/bytedance/gopkg
//
// Do not remove or change the type signature.
// See go.dev/issue/67401.
//
//go:linkname cheaprand
//go:nosplit
func cheaprand() uint32 {
	if simPinRand != 0 && getg().bubble != nil {
		return uint32(simNextRand() >> 17)
	}
	mp := getg().m
	// Implement wyrand: https://github.com/wangyi-fudan/wyhash
	// Only the platform that math.Mul64 can be lowered
	// by the compiler should be in this list.
	if goarch.IsAmd64|goarch.IsArm64|goarch.IsPpc64|
		goarch.IsPpc64le|goarch.IsMips64|goarch.IsMips64le|
		goarch.IsS390x|goarch.IsRiscv64|goarch.IsLoong64 == 1 {
		mp.cheaprand += 0xa0761d6478bd642f
		hi, lo := math.Mul64(mp.cheaprand, mp.cheaprand^0xe7037ed1a0b428db)
		return uint32(hi ^ lo)
	}

	// Implement xorshift64+: 2 32-bit xorshift sequences added together.
	// Shift triplet [17,7,16] was calculated as indicated in Marsaglia's
	// Xorshift paper: https://www.jstatsoft.org/article/view/v008i14/xorshift.pdf
	// This generator passes the SmallCrush suite, part of TestU01 framework:
	// http://simul.iro.umontreal.ca/testu01/tu01.html
	t := (*[2]uint32)(unsafe.Pointer(&mp.cheaprand))
	s1, s0 := t[0], t[1]
	s1 ^= s1 << 17
	s1 = s1 ^ s0 ^ s1>>7 ^ s0>>16
	t[0], t[1] = s0, s1
	return s0 + s1
}

// cheaprand64 is a non-cryptographic-quality 63-bit random generator
// suitable for calling at very high frequency (such as during sampling decisions).
// it is "cheap" in the sense of both expense and quality.
//
// cheaprand64 must not be exported to other packages:
// the rule is that other packages using runtime-provided
// randomness must always use rand.
//
// cheaprand64 should be an internal detail,
// but widely used packages access it using linkname.
// Notable members of the hall of shame include:
//   - github.com/zhangyunhao116/fastrand
//
// Do not remove or change the type signature.
// See go.dev/issue/67401.
//
//go:linkname cheaprand64
//go:nosplit
func cheaprand64() int64 {
	return int64(cheaprand())<<31 ^ int64(cheaprand())
}

// cheaprandn is like cheaprand() % n but faster.
//
// cheaprandn must not be exported to other packages:
// the rule is that other packages using runtime-provided
// randomness must always use randn.
//
// cheaprandn should be an internal detail,
// but widely used packages access it using linkname.
// Notable members of the hall of shame include:
//   - github.com/phuslu/log
//
// Do not remove or change the type signature.
// See go.dev/issue/67401.
//
//go:linkname cheaprandn
//go:nosplit
func cheaprandn(n uint32) uint32 {
	// See https://lemire.me/blog/2016/06/27/a-fast-alternative-to-the-modulo-reduction/
	return uint32((uint64(cheaprand()) * uint64(n)) >> 32)
}

// Too much legacy code has go:linkname references
// to runtime.fastrand and friends, so keep these around for now.
// Code should migrate to math/rand/v2.Uint64,
// which is just as fast, but that's only available in Go 1.22+.
// It would be reasonable to remove these in Go 1.24.
// Do not call these from package runtime.

//go:linkname legacy_fastrand runtime.fastrand
func legacy_fastrand() uint32 {
	return uint32(rand())
}

//go:linkname legacy_fastrandn runtime.fastrandn
func legacy_fastrandn(n uint32) uint32 {
	return randn(n)
}

//go:linkname legacy_fastrand64 runtime.fastrand64
func legacy_fastrand64() uint64 {
	return rand()
}


// ---- simulation pin (added by /verif/tools/mkoverlay.py, harness binary only) ----

var simPinRand uint64

//go:linkname simSetPinRand runtime.simSetPinRand
func simSetPinRand(v uint64) { simPinRand = v }

var simPinCount uint64

//go:linkname simGetPinCount runtime.simGetPinCount
func simGetPinCount() uint64 { return simPinCount }

// simNextRand returns the value pinned for the current scheduler step. It is a
// constant per step, not a sequence: draws made by lazily initialised process-wide
// state (which happen in the first run that reaches them and never again) must not
// shift the values later draws of the same step see.
//
//go:nosplit
func simNextRand() uint64 {
	simPinCount++
	return simPinRand
}

// ---- gates: a hook the harness installs; called at the entry of channel operations and
// of sync.Mutex.Lock by goroutines inside a bubble (never on a system stack, never with
// runtime locks held, never re-entrantly).

var simYieldFn func(kind int, n int, p0, p1, p2, p3, p4, p5 uintptr)

//go:linkname simSetYieldFn runtime.simSetYieldFn
func simSetYieldFn(f func(kind int, n int, p0, p1, p2, p3, p4, p5 uintptr)) { simYieldFn = f }

//go:linkname simSetNoYield runtime.simSetNoYield
func simSetNoYield(v bool) bool {
	gp := getg()
	old := gp.simNoYield
	gp.simNoYield = v
	return old
}

func simMaybeYield(kind int) {
	if simYieldFn == nil {
		return
	}
	gp := getg()
	if gp.bubble == nil || gp.simNoYield || gp.m.curg != gp || gp.m.locks != 0 || gp.m.preemptoff != "" {
		return
	}
	gp.simNoYield = true
	var pcs [6]uintptr
	n := callers(2, pcs[:])
	simYieldFn(kind, n, pcs[0], pcs[1], pcs[2], pcs[3], pcs[4], pcs[5])
	gp.simNoYield = false
}

//go:linkname internal_sync_simMaybeYield internal/sync.runtime_simMaybeYield
func internal_sync_simMaybeYield(kind int) { simMaybeYield(kind) }
