package registrysim

import (
	"fmt"
	"os"
	"testing"
)

func TestDebug(t *testing.T) {
	if os.Getenv("VERIF_MODE") != "debug" {
		t.Skip()
	}
	base := "/verif/.build/c19"
	_ = os.MkdirAll(base, 0o755)
	for s := envInt("VERIF_SEED_BASE", 1); s < envInt("VERIF_SEED_BASE", 1)+envInt("VERIF_MAXRUNS", 5); s++ {
		sc := GenScenario(s)
		root := mkSandbox(base)
		w := newWorld(sc, root)
		for i, a := range sc.Attempts {
			err := w.install(i)
			fmt.Printf("seed %d attempt %d %s/%s idx=%d shape=%s corrupt=%v verifier=%s unsigned=%v net=%s badsig=%v ops=%d -> %v\n", s, i, a.Conn, a.Version, a.IndexVersion, a.Shape, a.CorruptBytes, a.Verifier, a.Unsigned, a.NetFault, a.BadSignature, w.ops, firstLine(err))
		}
		os.RemoveAll(root)
	}
}

func firstLine(err error) string {
	if err == nil {
		return "OK"
	}
	s := err.Error()
	if len(s) > 160 {
		s = s[:160]
	}
	return s
}
