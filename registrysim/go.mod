module verif/registrysim

go 1.26.8

require github.com/conduitio/conduit v0.0.0

require (
	github.com/Masterminds/semver/v3 v3.5.0 // indirect
	github.com/asaskevich/govalidator v0.0.0-20230301143203-a9d515a09cc2 // indirect
	github.com/blang/semver v3.5.1+incompatible // indirect
	github.com/cenkalti/backoff/v5 v5.0.3 // indirect
	github.com/cespare/xxhash/v2 v2.3.0 // indirect
	github.com/conduitio/conduit-commons v0.6.0 // indirect
	github.com/conduitio/conduit-processor-sdk v0.5.2-0.20260727035706-8376e49ad512 // indirect
	github.com/cyberphone/json-canonicalization v0.0.0-20241213102144-19d51d7fe467 // indirect
	github.com/digitorus/pkcs7 v0.0.0-20230818184609-3a137a874352 // indirect
	github.com/digitorus/timestamp v0.0.0-20231217203849-220c5c2851b7 // indirect
	github.com/go-logr/logr v1.4.4 // indirect
	github.com/go-logr/stdr v1.2.2 // indirect
	github.com/go-openapi/analysis v0.25.5 // indirect
	github.com/go-openapi/errors v0.22.8 // indirect
	github.com/go-openapi/jsonpointer v1.0.0 // indirect
	github.com/go-openapi/jsonreference v1.0.0 // indirect
	github.com/go-openapi/loads v0.25.0 // indirect
	github.com/go-openapi/runtime v0.33.0 // indirect
	github.com/go-openapi/runtime/server-middleware v0.30.0 // indirect
	github.com/go-openapi/spec v0.22.9 // indirect
	github.com/go-openapi/strfmt v0.27.0 // indirect
	github.com/go-openapi/swag v0.28.0 // indirect
	github.com/go-openapi/swag/cmdutils v0.28.0 // indirect
	github.com/go-openapi/swag/conv v0.28.0 // indirect
	github.com/go-openapi/swag/fileutils v0.28.0 // indirect
	github.com/go-openapi/swag/jsonutils v0.28.0 // indirect
	github.com/go-openapi/swag/loading v0.28.0 // indirect
	github.com/go-openapi/swag/mangling v0.28.0 // indirect
	github.com/go-openapi/swag/netutils v0.28.0 // indirect
	github.com/go-openapi/swag/pools v0.28.0 // indirect
	github.com/go-openapi/swag/stringutils v0.28.0 // indirect
	github.com/go-openapi/swag/typeutils v0.28.0 // indirect
	github.com/go-openapi/swag/yamlutils v0.28.0 // indirect
	github.com/go-openapi/validate v0.26.1 // indirect
	github.com/go-viper/mapstructure/v2 v2.5.0 // indirect
	github.com/goccy/go-json v0.10.6 // indirect
	github.com/gofrs/flock v0.13.0 // indirect
	github.com/google/certificate-transparency-go v1.3.3 // indirect
	github.com/google/go-containerregistry v0.21.7 // indirect
	github.com/google/uuid v1.6.0 // indirect
	github.com/grpc-ecosystem/grpc-gateway/v2 v2.30.0 // indirect
	github.com/hamba/avro/v2 v2.31.0 // indirect
	github.com/in-toto/attestation v1.2.0 // indirect
	github.com/in-toto/in-toto-golang v0.11.0 // indirect
	github.com/json-iterator/go v1.1.12 // indirect
	github.com/mattn/go-colorable v0.1.15 // indirect
	github.com/mattn/go-isatty v0.0.24 // indirect
	github.com/mitchellh/mapstructure v1.5.0 // indirect
	github.com/modern-go/concurrent v0.0.0-20180306012644-bacd9c7ef1dd // indirect
	github.com/modern-go/reflect2 v1.0.2 // indirect
	github.com/oklog/ulid/v2 v2.1.1 // indirect
	github.com/opencontainers/go-digest v1.0.0 // indirect
	github.com/pkg/errors v0.9.1 // indirect
	github.com/rs/zerolog v1.35.1 // indirect
	github.com/secure-systems-lab/go-securesystemslib v0.11.0 // indirect
	github.com/shibumi/go-pathspec v1.3.0 // indirect
	github.com/sigstore/protobuf-specs v0.5.1 // indirect
	github.com/sigstore/rekor v1.5.3 // indirect
	github.com/sigstore/rekor-tiles/v2 v2.3.0 // indirect
	github.com/sigstore/sigstore v1.10.8 // indirect
	github.com/sigstore/sigstore-go v1.3.0 // indirect
	github.com/sigstore/timestamp-authority/v2 v2.1.3 // indirect
	github.com/stealthrocket/wazergo v0.19.1 // indirect
	github.com/tetratelabs/wazero v1.12.0 // indirect
	github.com/theupdateframework/go-tuf/v2 v2.4.2 // indirect
	github.com/transparency-dev/formats v0.1.1 // indirect
	github.com/transparency-dev/merkle v0.0.2 // indirect
	github.com/twmb/go-cache v1.3.0 // indirect
	github.com/youmark/pkcs8 v0.0.0-20240726163527-a2c0da244d78 // indirect
	go.opentelemetry.io/auto/sdk v1.2.1 // indirect
	go.opentelemetry.io/otel v1.45.0 // indirect
	go.opentelemetry.io/otel/metric v1.45.0 // indirect
	go.opentelemetry.io/otel/trace v1.45.0 // indirect
	go.yaml.in/yaml/v3 v3.0.5 // indirect
	golang.org/x/crypto v0.54.0 // indirect
	golang.org/x/mod v0.38.0 // indirect
	golang.org/x/net v0.57.0 // indirect
	golang.org/x/sync v0.22.0 // indirect
	golang.org/x/sys v0.47.0 // indirect
	golang.org/x/term v0.45.0 // indirect
	golang.org/x/text v0.40.0 // indirect
	golang.org/x/xerrors v0.0.0-20240903120638-7835f813f4da // indirect
	google.golang.org/genproto/googleapis/api v0.0.0-20260803160001-6ac0973c030d // indirect
	google.golang.org/genproto/googleapis/rpc v0.0.0-20260803160001-6ac0973c030d // indirect
	google.golang.org/grpc v1.83.0 // indirect
	google.golang.org/protobuf v1.36.12 // indirect
	k8s.io/klog/v2 v2.140.0 // indirect
)

replace github.com/conduitio/conduit => /repo
