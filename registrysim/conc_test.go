package registrysim

// Two installs of one scenario run interleaved through the real registry.Install: every
// path-level file-system operation and every wait for a contended install lock is a point
// where the running install parks and a scheduler driven by one PRNG picks who goes on.
// Exactly one install executes at any time, so a schedule is the sequence of picks and one
// (scenario seed, schedule number) pair is one repeatable execution. On top of the schedule
// the simulator injects a crash of the whole process at a drawn operation, one failing
// file-system call, and lock time-outs.

import (
	"fmt"
	"hash/fnv"
	"math/rand/v2"
	"os"

	"github.com/conduitio/conduit/pkg/foundation/simfs"
	"github.com/gofrs/flock"
)

type actor struct {
	id, attempt int
	wake        chan bool
	lockPath    string // non-empty: parked in a wait for this lock
	done        bool
	err         error
}

type conc struct {
	w            *World
	r            *rand.Rand
	actors       []*actor
	cur          *actor
	yield        chan struct{}
	trace        []byte
	timeoutPm    int
	lockWaits    int
	lockTimeouts int
}

// park: the executing install stops here until the scheduler picks it again. The result is
// false if a lock wait is to give up.
func (c *conc) park(lock string) bool {
	a := c.cur
	a.lockPath = lock
	c.yield <- struct{}{}
	ok := <-a.wake
	a.lockPath = ""
	return ok
}

func lockFree(path string) bool {
	fl := flock.New(path)
	ok, err := fl.TryLock()
	if err != nil {
		return true // let the install find out by itself
	}
	if ok {
		_ = fl.Unlock()
	}
	return ok
}

func (c *conc) run() {
	for _, a := range c.actors {
		a := a
		go func() {
			<-a.wake
			a.err = c.w.runInstall(a.attempt)
			a.done = true
			c.yield <- struct{}{}
		}()
	}
	for step := 0; step < 200000; step++ {
		var enabled, waiting []*actor
		for _, a := range c.actors {
			switch {
			case a.done:
			case a.lockPath != "" && !c.w.crashed && !lockFree(a.lockPath):
				waiting = append(waiting, a)
			default:
				enabled = append(enabled, a)
			}
		}
		if len(enabled) == 0 && len(waiting) == 0 {
			return
		}
		var a *actor
		ok := true
		if len(enabled) == 0 || (len(waiting) > 0 && c.timeoutPm > 0 && c.r.IntN(1000) < c.timeoutPm) {
			a, ok = waiting[c.r.IntN(len(waiting))], false // the lock time-out elapses
			c.lockTimeouts++
		} else {
			a = enabled[c.r.IntN(len(enabled))]
		}
		c.cur, c.w.cur = a, a.attempt
		c.trace = append(c.trace, byte('0'+a.id))
		a.wake <- ok
		<-c.yield
	}
	panic("sim: concurrent installs did not finish within the step limit")
}

// installPair runs attempts i and j interleaved under the schedule of rng.
func (w *World) installPair(i, j int, r *rand.Rand, timeoutPm int) *conc {
	w.ops, w.crashed, w.faultFired, w.opLog = 0, false, false, nil
	w.publish(i)
	w.publish(j)
	w.started[i], w.started[j] = true, true
	c := &conc{w: w, r: r, yield: make(chan struct{}), timeoutPm: timeoutPm,
		actors: []*actor{{id: 0, attempt: i, wake: make(chan bool)}, {id: 1, attempt: j, wake: make(chan bool)}}}
	w.conc = c
	simfs.Before, simfs.After = w.before, w.after
	simfs.LockWait = func(path string) bool {
		if w.crashed {
			return false
		}
		c.lockWaits++
		w.opLog = append(w.opLog, fmt.Sprintf("- %swaits for lock %s", w.actorTag(), path))
		return c.park(path) && !w.crashed
	}
	defer func() { simfs.Before, simfs.After, simfs.LockWait, w.conc = nil, nil, nil, nil }()
	c.run()
	return c
}

// RunConcurrent: the scenario's earlier attempts run one after the other, its last two
// interleaved, under nsched schedules (schedule 0 without faults).
func RunConcurrent(sc *Scenario, base string, nsched int, only *Found, st *Stats) []Found {
	n := len(sc.Attempts)
	if n < 2 {
		return nil
	}
	var found []Found
	report := func(w *World, attempt, k int, c *conc, clog []string) {
		for _, v := range w.viol {
			dup := false
			for _, f := range found {
				if f.Viol.Class == v.Class {
					dup = true
				}
			}
			if !dup {
				found = append(found, Found{Seed: sc.Seed, Attempt: attempt, Mode: "conc", Op: k, Viol: v, Scenario: sc, OpLog: tail(clog, 60), Schedule: string(c.trace)})
			}
		}
		w.viol = nil
	}
	root := mkSandbox(base)
	defer os.RemoveAll(root)
	w := newWorld(sc, root)
	for i := 0; i < n-2; i++ {
		_ = w.install(i)
		w.viol = nil // (the sequential enumeration reports what a single install does)
	}
	i, j := n-2, n-1
	total := 0
	for k := 0; k < nsched; k++ {
		if only != nil && only.Op != k && k != 0 {
			continue
		}
		sb := mkSandbox(base)
		_ = copyTree(root, sb)
		x := w.clone(sb)
		r := rand.New(rand.NewPCG(uint64(sc.Seed)^0xc0c, uint64(k)*7919+1))
		timeoutPm := 0
		mode := "none"
		if k > 0 && total > 0 {
			switch r.IntN(4) {
			case 0:
				x.crashAt, x.crashAfter, mode = 1+r.IntN(total), r.IntN(2) == 0, "crash"
			case 1:
				x.faultAt, mode = 1+r.IntN(total), "fault"
			}
			timeoutPm = pick(r, 0, 0, 30, 200)
		}
		c := x.installPair(i, j, r, timeoutPm)
		clog := append([]string(nil), x.opLog...)
		if k == 0 {
			total = x.ops
		}
		if only != nil && only.Op != k {
			_ = os.RemoveAll(sb)
			continue
		}
		st.Runs += 2
		st.ConcRuns++
		st.LockWaits += c.lockWaits
		st.LockTimeouts += c.lockTimeouts
		if x.crashed && r.IntN(2) == 0 { // the crash was a power loss: unsynced tails are gone
			st.PowerLossPoints++
			st.UnsyncedFilesCut += x.powerLoss(r)
			mode = "power-loss"
		}
		switch {
		case x.crashed:
			st.ConcCrashes++
		case x.faultFired:
			st.ConcFaults++
			for op, v := range x.faultsInjected {
				st.Faults[op] += v
			}
		}
		h := fnv.New64a()
		_, _ = h.Write(c.trace)
		st.schedules[h.Sum64()] = true
		x.checkTree(fmt.Sprintf("attempts %d and %d interleaved (schedule %d, injected: %s)", i, j, k, mode))
		// the process comes back / the operator retries, one install at a time
		x.crashAt, x.faultAt, x.crashAfter = 0, 0, false
		_ = x.install(i)
		_ = x.install(j)
		st.Runs += 2
		x.checkTree(fmt.Sprintf("retry after attempts %d and %d interleaved (schedule %d, injected: %s)", i, j, k, mode))
		st.TornBinaries += x.tornBinaries
		report(x, i, k, c, clog)
		_ = os.RemoveAll(sb)
	}
	return found
}
