package registrysim

// Registry simulation (C19): the real pkg/registry install pipeline (index fetch and
// signature verification, anti-rollback state, download, corruption check, verification
// gate / unsigned policy gate, cache, extraction, atomic placement, manifest) runs against a
// real temporary directory tree; every path-level file-system call goes through the injected
// simfs shim (crash points, faults, placement log), the network is an in-process
// RoundTripper, the artifact verifier is scripted. Sequential enumeration here; two installs
// interleaved at every file-system operation and lock wait by a seeded scheduler in conc_test.go.

import (
	"archive/tar"
	"bytes"
	"compress/gzip"
	"context"
	"crypto/ed25519"
	"crypto/sha256"
	"encoding/base64"
	"encoding/hex"
	"encoding/json"
	"errors"
	"fmt"
	"io"
	"io/fs"
	"math/rand/v2"
	"net/http"
	"os"
	"path/filepath"
	"runtime"
	"sort"
	"strings"
	"testing"
	"time"

	"github.com/conduitio/conduit/pkg/foundation/simfs"
	"github.com/conduitio/conduit/pkg/registry"
	"github.com/conduitio/conduit/pkg/registry/index"
	"github.com/conduitio/conduit/pkg/registry/trust"
)

// ---------------------------------------------------------------- scenario

type Entry struct {
	Name     string `json:"name"`
	Type     string `json:"type"` // reg dir sym hard dev
	Link     string `json:"link,omitempty"`
	Size     int    `json:"size,omitempty"`
	LieSize  int    `json:"lie_size,omitempty"` // declared size differs (archive is then corrupt)
	Mode     int64  `json:"mode,omitempty"`
	contents []byte
}

type Attempt struct {
	Conn         string  `json:"conn"`
	Version      string  `json:"version"`
	IndexVersion int64   `json:"index_version"`
	Entries      []Entry `json:"entries"`
	Shape        string  `json:"shape"`
	CorruptBytes bool    `json:"corrupt_bytes,omitempty"` // served bytes differ from the digest in the index
	Verifier     string  `json:"verifier"`                // accept reject lie error
	Unsigned     bool    `json:"unsigned,omitempty"`
	TTY, CI, MCP, EnvVar, Typed, OperatorAllow bool
	NetFault     string  `json:"net_fault,omitempty"` // "", artifact-404, artifact-short, index-err, bundle-err
	BadSignature bool    `json:"bad_signature,omitempty"` // index signed with an unknown key
	Freshness    bool    `json:"freshness,omitempty"`     // the index is a freshness-only re-sign: content of the previous attempt's index, new version, freshness key
}

type Scenario struct {
	Seed     int64     `json:"seed"`
	Attempts []Attempt `json:"attempts"`
}

func pick[T any](r *rand.Rand, xs ...T) T { return xs[r.IntN(len(xs))] }

func genEntries(r *rand.Rand, conn string) ([]Entry, string) {
	good := Entry{Name: "conduit-connector-" + conn, Type: "reg", Size: 10 + r.IntN(3000), Mode: 0o755}
	shape := pick(r, "good", "good", "good", "good", "good", "good", "good", "good", "nested", "nested", "dot-slash", "dotdot", "abs", "symlink-out", "symlink-then-write", "hardlink", "two-root", "no-root", "device", "dup", "lie-size", "deep-dotdot", "dir-then-file", "empty", "dot-slash")
	var es []Entry
	switch shape {
	case "good":
		es = []Entry{good}
	case "nested":
		es = []Entry{{Name: "docs/", Type: "dir"}, {Name: "docs/README.md", Type: "reg", Size: 50}, good, {Name: "lib/x/y/z.so", Type: "reg", Size: 100}}
	case "dotdot":
		es = []Entry{good, {Name: "../../../../c19evil-" + conn, Type: "reg", Size: 20}, {Name: "../c19evil-up1", Type: "reg", Size: 20}}
	case "deep-dotdot":
		es = []Entry{{Name: "a/b/../../../../../../c19evil-deep", Type: "reg", Size: 20}, good}
	case "abs":
		es = []Entry{{Name: "/tmp/c19evil-abs-escape", Type: "reg", Size: 20}, good}
	case "symlink-out":
		es = []Entry{{Name: "link", Type: "sym", Link: "../../../outside"}, good}
	case "symlink-then-write":
		es = []Entry{{Name: "d", Type: "sym", Link: "../../.."}, {Name: "d/c19evil-planted", Type: "reg", Size: 10}, good}
	case "hardlink":
		es = []Entry{good, {Name: "hl", Type: "hard", Link: "../../../outside/canary-1"}}
	case "two-root":
		es = []Entry{good, {Name: "another-binary", Type: "reg", Size: 30, Mode: 0o755}}
	case "no-root":
		es = []Entry{{Name: "bin/conduit-connector-" + conn, Type: "reg", Size: 30}}
	case "device":
		es = []Entry{{Name: "dev0", Type: "dev"}, good}
	case "dup":
		es = []Entry{good, good}
	case "lie-size":
		g := good
		g.LieSize = g.Size + 1000
		es = []Entry{g}
	case "dir-then-file":
		es = []Entry{{Name: "x/", Type: "dir"}, {Name: "x", Type: "reg", Size: 5}, good}
	case "empty":
		es = nil
	case "dot-slash":
		g := good
		g.Name = "./" + g.Name
		es = []Entry{g, {Name: "./sub/../sub2/f", Type: "reg", Size: 7}}
	}
	for i := range es {
		if es[i].Type == "reg" {
			b := make([]byte, es[i].Size)
			for j := range b {
				b[j] = byte(r.IntN(256))
			}
			es[i].contents = b
		}
	}
	return es, shape
}

func GenScenario(seed int64) *Scenario {
	r := rand.New(rand.NewPCG(uint64(seed)^0xc19, uint64(seed)*0x9e3779b97f4a7c15+19))
	sc := &Scenario{Seed: seed}
	n := 1 + r.IntN(4)
	iv := int64(3 + r.IntN(5))
	for i := 0; i < n; i++ {
		a := Attempt{Conn: pick(r, "alpha", "beta"), Version: fmt.Sprintf("1.%d.%d", r.IntN(2), r.IntN(3))}
		switch r.IntN(6) {
		case 0:
			iv -= int64(1 + r.IntN(3)) // an older index than one already accepted
		case 1: // same version again
		default:
			iv += int64(1 + r.IntN(3))
		}
		if iv < 1 {
			iv = 1
		}
		a.IndexVersion = iv
		a.Entries, a.Shape = genEntries(r, a.Conn)
		a.CorruptBytes = r.IntN(10) == 0
		a.Verifier = pick(r, "accept", "accept", "accept", "accept", "accept", "accept", "reject", "lie", "error")
		if r.IntN(4) == 0 {
			a.Unsigned = true
			a.TTY, a.CI, a.MCP, a.EnvVar, a.Typed, a.OperatorAllow = r.IntN(2) == 0, r.IntN(3) == 0, r.IntN(5) == 0, r.IntN(2) == 0, r.IntN(2) == 0, r.IntN(3) != 0
		}
		if r.IntN(12) == 0 {
			a.NetFault = pick(r, "artifact-404", "artifact-short", "index-err", "bundle-err")
		}
		a.BadSignature = r.IntN(20) == 0
		if i > 0 && r.IntN(4) == 0 {
			// the nightly re-sign: same content as the index of the previous attempt (same connector,
			// version and archive are asked for again), only index.version moves, freshness key only
			p := sc.Attempts[i-1]
			a.Conn, a.Version, a.Entries, a.Shape = p.Conn, p.Version, p.Entries, p.Shape
			a.Freshness, a.CorruptBytes = true, false
		}
		sc.Attempts = append(sc.Attempts, a)
	}
	return sc
}

// ---------------------------------------------------------------- fake network

type simNet struct {
	files map[string][]byte
	fail  map[string]string
	log   []string
}

func (n *simNet) RoundTrip(req *http.Request) (*http.Response, error) {
	u := req.URL.String()
	n.log = append(n.log, u)
	switch n.fail[u] {
	case "err":
		return nil, errors.New("sim-net: connection refused")
	case "404":
		return &http.Response{StatusCode: 404, Body: io.NopCloser(strings.NewReader("not found")), Header: http.Header{}, Request: req}, nil
	}
	b, ok := n.files[u]
	if !ok {
		return &http.Response{StatusCode: 404, Body: io.NopCloser(strings.NewReader("not found")), Header: http.Header{}, Request: req}, nil
	}
	if n.fail[u] == "short" {
		b = b[:len(b)/2]
	}
	return &http.Response{StatusCode: 200, Body: io.NopCloser(bytes.NewReader(b)), Header: http.Header{}, ContentLength: int64(len(b)), Request: req}, nil
}

// ---------------------------------------------------------------- fake verifier

type simVerifier struct {
	w *World
}

func (v *simVerifier) VerifyArtifact(_ context.Context, ref registry.ArtifactRef, id trust.PinnedIdentity) (registry.VerifyResult, error) {
	w := v.w
	w.verifierCalls = append(w.verifierCalls, verifierCall{attempt: w.cur, op: w.ops, digest: ref.Digest})
	switch w.sc.Attempts[w.cur].Verifier {
	case "reject":
		return registry.VerifyResult{}, errors.New("sim-verifier: signature does not match the pinned identity")
	case "error":
		return registry.VerifyResult{}, errors.New("sim-verifier: transparency log unreachable")
	case "lie":
		return registry.VerifyResult{Signed: false}, nil
	}
	w.accepted[w.cur] = ref.Digest
	return registry.VerifyResult{Signed: true, VerifiedIdentity: "sim:" + id.OIDCIssuer}, nil
}

type verifierCall struct {
	attempt, op int
	digest      [32]byte
}

// ---------------------------------------------------------------- world

type Violation struct {
	Class string `json:"class"`
	Msg   string `json:"msg"`
}

type World struct {
	sc      *Scenario
	root    string // sandbox root: root/outside (canaries), root/target (connectors path)
	target  string
	net     *simNet
	pub     ed25519.PublicKey
	priv    ed25519.PrivateKey
	badPriv ed25519.PrivateKey
	freshPub  ed25519.PublicKey
	freshPriv ed25519.PrivateKey
	acceptedMax int64 // highest index version of an install that succeeded (its index was accepted)
	keyID   string
	archive map[int][]byte

	cur     int // attempt being executed
	ops     int // path-level FS operations of the current attempt so far
	crashAt int // op number (1-based) at which the process dies; 0 = never
	crashAfter bool
	crashed bool
	faultAt int // op number whose call fails once; 0 = none
	faultFired bool
	opLog   []string

	verifierCalls []verifierCall
	accepted      map[int][32]byte
	placements    []placement // files created / renamed into the install directory itself
	hwm           int64       // highest index version ever seen in the state file
	manifestKeys  map[string]bool
	outsideBase   string
	viol          []Violation
	statePath     string
	faultsInjected map[string]int
	nets          map[int]*simNet // what each attempt's network serves
	started       map[int]bool    // attempts begun so far
	conc          *conc           // non-nil while two installs run interleaved

	// power-loss model: path -> number of leading bytes that are on stable storage. A file
	// opened for writing is tracked from the size it had when it was opened; f.Sync() makes
	// its current size durable; renames carry the record along. When the power fails, every
	// tracked file loses (part of) the tail that was never synced.
	dirty     map[string]int64
	powerLost bool // a power loss has been applied to this tree: unsynced tails are gone
	tornBinaries int
}

type placement struct {
	attempt, op int
	path        string
}

var errCrashed = errors.New("sim: process has crashed")

func (w *World) violate(class, msg string) {
	for _, v := range w.viol {
		if v.Class == class {
			return
		}
	}
	w.viol = append(w.viol, Violation{class, msg})
}

func mutating(op string) bool {
	switch op {
	case "readfile", "readdir", "stat", "lstat", "open", "openfile", "sync":
		return false
	}
	return true
}

func (w *World) before(op string, paths ...string) error {
	if w.crashed {
		return errCrashed
	}
	if w.conc != nil {
		w.conc.park("")
		if w.crashed {
			return errCrashed
		}
	}
	w.ops++
	w.opLog = append(w.opLog, fmt.Sprintf("%d %s%s %s", w.ops, w.actorTag(), op, strings.Join(paths, " -> ")))
	if w.crashAt == w.ops && !w.crashAfter {
		w.crashed = true
		return errCrashed
	}
	if w.faultAt == w.ops && !w.faultFired {
		w.faultFired = true
		w.faultsInjected[op]++
		return &fs.PathError{Op: op, Path: paths[0], Err: errors.New("sim-fault: input/output error")}
	}
	return nil
}

// trackDurability keeps the power-loss model's record of what is on stable storage.
func (w *World) trackDurability(op string, paths []string) {
	if w.dirty == nil {
		w.dirty = map[string]int64{}
	}
	size := func(p string) int64 {
		if fi, err := os.Lstat(p); err == nil && fi.Mode().IsRegular() {
			return fi.Size()
		}
		return 0
	}
	switch op {
	case "createtemp", "openfile-w", "writefile-truncated":
		p := paths[0]
		if _, ok := w.dirty[p]; !ok {
			w.dirty[p] = size(p) // what was there when it was opened (0 after create / truncate)
		} else if sz := size(p); sz < w.dirty[p] {
			w.dirty[p] = sz
		}
	case "sync":
		if paths[0] != "" {
			w.dirty[paths[0]] = size(paths[0])
		}
	case "rename":
		old, nw := paths[0], paths[1]
		for p, d := range w.dirty {
			if p == nw || strings.HasPrefix(p, nw+string(filepath.Separator)) {
				delete(w.dirty, p)
			}
			_ = d
		}
		for p, d := range w.dirty {
			if p == old {
				delete(w.dirty, p)
				w.dirty[nw] = d
			} else if strings.HasPrefix(p, old+string(filepath.Separator)) {
				delete(w.dirty, p)
				w.dirty[nw+p[len(old):]] = d
			}
		}
	case "remove", "removeall":
		for p := range w.dirty {
			if p == paths[0] || strings.HasPrefix(p, paths[0]+string(filepath.Separator)) {
				delete(w.dirty, p)
			}
		}
	}
}

// powerLoss: the machine loses power now. Every byte that was never forced to stable storage
// may be gone: each tracked file is cut back to its durable size, or (one time in three) to a
// PRNG-chosen length between that and its current size. Directory operations are kept (the
// journal of a common file system commits a rename before the data it names).
func (w *World) powerLoss(r *rand.Rand) int {
	paths := make([]string, 0, len(w.dirty))
	for p := range w.dirty {
		paths = append(paths, p)
	}
	sort.Strings(paths)
	lost := 0
	for _, p := range paths {
		fi, err := os.Lstat(p)
		if err != nil || !fi.Mode().IsRegular() || fi.Size() <= w.dirty[p] {
			continue
		}
		keep := w.dirty[p]
		if r.IntN(3) == 0 {
			keep += r.Int64N(fi.Size() - keep)
		}
		if os.Truncate(p, keep) == nil {
			lost++
		}
	}
	w.powerLost = true
	w.dirty = map[string]int64{}
	return lost
}

func (w *World) after(op string, paths ...string) {
	w.trackDurability(op, paths)
	dst := paths[len(paths)-1]
	if mutating(op) && op != "remove" && op != "removeall" && filepath.Dir(dst) == w.target && filepath.Base(dst) != ".registry" {
		w.placements = append(w.placements, placement{w.cur, w.ops, dst})
		w.checkPlacement(dst)
	}
	if dst == w.statePath && (op == "rename" || op == "writefile" || op == "writefile-truncated") {
		w.checkState("after " + op)
	}
	if w.crashAt == w.ops && w.crashAfter {
		w.crashed = true
	}
}

// unsignedNecessary: the least the statement demands before an unsigned artifact may be placed.
func (a Attempt) unsignedNecessary() bool { return a.Unsigned && a.OperatorAllow && !a.MCP }

func (w *World) servedDigestOK(i int) bool { return !w.sc.Attempts[i].CorruptBytes }

// checkPlacement: something has just appeared in the install directory itself.
func (w *World) checkPlacement(path string) {
	a := w.sc.Attempts[w.cur]
	if !w.servedDigestOK(w.cur) {
		w.violate("placed-despite-digest-mismatch", fmt.Sprintf("attempt %d: %s appeared in the install directory although the downloaded bytes do not match the digest in the index", w.cur, filepath.Base(path)))
	}
	if _, ok := w.accepted[w.cur]; !ok && !a.unsignedNecessary() {
		w.violate("placed-before-verification", fmt.Sprintf("attempt %d: %s appeared in the install directory although the verifier has not accepted the artifact (verifier script %q, unsigned requested %v, operator allows %v)", w.cur, filepath.Base(path), a.Verifier, a.Unsigned, a.OperatorAllow))
	}
}

func (w *World) checkState(when string) {
	raw, err := os.ReadFile(w.statePath)
	if err != nil {
		if os.IsNotExist(err) {
			return
		}
		w.violate("state-unreadable", fmt.Sprintf("%s: index state cannot be read: %v", when, err))
		return
	}
	var st struct {
		Version int64 `json:"version"`
	}
	if err := json.Unmarshal(raw, &st); err != nil {
		w.violate("state-torn", fmt.Sprintf("%s: index state file does not parse (%d bytes: %.60q): %v", when, len(raw), raw, err))
		return
	}
	if st.Version < w.hwm {
		w.violate("high-water-mark-decreased", fmt.Sprintf("%s: recorded index version went from %d down to %d", when, w.hwm, st.Version))
	}
	if st.Version > w.hwm {
		w.hwm = st.Version
	}
}

// snapshotOutside: everything outside the install directory (names, types, modes, contents, link targets).
func (w *World) snapshotOutside() string {
	var b strings.Builder
	_ = filepath.Walk(w.root, func(p string, info fs.FileInfo, err error) error {
		if err != nil {
			fmt.Fprintf(&b, "%s ERR %v\n", p, err)
			return nil
		}
		if p == w.target {
			return filepath.SkipDir
		}
		rel, _ := filepath.Rel(w.root, p)
		fmt.Fprintf(&b, "%s %v", rel, info.Mode())
		if info.Mode()&fs.ModeSymlink != 0 {
			l, _ := os.Readlink(p)
			fmt.Fprintf(&b, " -> %s", l)
		} else if info.Mode().IsRegular() {
			c, _ := os.ReadFile(p)
			s := sha256.Sum256(c)
			fmt.Fprintf(&b, " %x", s[:6])
		}
		b.WriteString("\n")
		return nil
	})
	for _, p := range []string{"/tmp/c19evil-abs-escape"} {
		if _, err := os.Lstat(p); err == nil {
			fmt.Fprintf(&b, "ABS %s exists\n", p)
		}
	}
	return b.String()
}

// checkTree: the postconditions that must hold after every attempt, fault and crash point.
func (w *World) checkTree(when string) {
	if got := w.snapshotOutside(); got != w.outsideBase {
		w.violate("wrote-outside-install-dir", fmt.Sprintf("%s: the file tree outside the install directory changed:\n%s", when, diffLines(w.outsideBase, got)))
	}
	ents, err := os.ReadDir(w.target)
	if err != nil {
		return
	}
	for _, e := range ents {
		name := e.Name()
		if name == ".registry" {
			continue
		}
		p := filepath.Join(w.target, name)
		info, err := os.Lstat(p)
		if err != nil {
			continue
		}
		if !info.Mode().IsRegular() {
			w.violate("non-regular-in-install-dir", fmt.Sprintf("%s: %s in the install directory is %v, not a regular file", when, name, info.Mode()))
			continue
		}
		content, _ := os.ReadFile(p)
		if !w.allowedBinary(name, content) {
			w.violate("unverified-artifact-installed", fmt.Sprintf("%s: install directory holds %s (%d bytes) which is not the binary of any artifact whose bytes matched the index digest and which was accepted by the verifier (or explicitly allowed unsigned)", when, name, len(content)))
		}
	}
	// nothing an archive carries may land anywhere but in a private staging directory
	_ = filepath.Walk(w.target, func(p string, info fs.FileInfo, err error) error {
		if err == nil && strings.Contains(filepath.Base(p), "c19evil") {
			rel, _ := filepath.Rel(w.target, p)
			if !strings.HasPrefix(rel, filepath.Join(".registry", "staging", "install-")) {
				w.violate("archive-entry-escaped-staging", fmt.Sprintf("%s: archive entry written to %s, outside the private staging directory", when, rel))
			}
		}
		return nil
	})
	w.checkState(when)
	// manifest: absent or complete, old or new
	mp := filepath.Join(w.target, ".registry", "manifest.json")
	if _, err := os.Lstat(mp); err == nil {
		m, err := registry.LoadManifest(mp)
		if err != nil {
			w.violate("manifest-torn", fmt.Sprintf("%s: install manifest does not load: %v", when, err))
		} else {
			keys := map[string]bool{}
			raw, _ := json.Marshal(m)
			var generic map[string]any
			_ = json.Unmarshal(raw, &generic)
			collectKeys(generic, keys)
			_ = keys
		}
	}
}

func collectKeys(v any, out map[string]bool) {
	if m, ok := v.(map[string]any); ok {
		for k, x := range m {
			out[k] = true
			collectKeys(x, out)
		}
	}
}

// allowedBinary: name/content is the root-level regular file of the archive of an attempt made
// so far whose served bytes matched the index digest and which passed verification (accepted
// by the verifier, or unsigned with the operator's permission).
func (w *World) allowedBinary(name string, content []byte) bool {
	for i := 0; i < len(w.sc.Attempts); i++ {
		a := w.sc.Attempts[i]
		if !w.started[i] {
			continue
		}
		if fmt.Sprintf("conduit-connector-%s_%s", a.Conn, a.Version) != name {
			continue
		}
		if !w.servedDigestOK(i) {
			continue
		}
		if _, ok := w.accepted[i]; !ok && !a.unsignedNecessary() {
			continue
		}
		for _, e := range a.Entries {
			if e.Type == "reg" && !strings.Contains(strings.TrimPrefix(filepath.Clean(e.Name), "./"), "/") {
				if bytes.Equal(e.contents, content) {
					return true
				}
				// after a power loss the unsynced tail of a binary may be missing (counted, not a
				// violation: the statement's atomicity clause names the manifest and the index state)
				if w.powerLost && len(content) < len(e.contents) && bytes.HasPrefix(e.contents, content) {
					w.tornBinaries++
					return true
				}
			}
		}
	}
	return false
}

func diffLines(a, b string) string {
	am := map[string]bool{}
	for _, l := range strings.Split(a, "\n") {
		am[l] = true
	}
	var out []string
	bm := map[string]bool{}
	for _, l := range strings.Split(b, "\n") {
		bm[l] = true
		if !am[l] {
			out = append(out, "+ "+l)
		}
	}
	for _, l := range strings.Split(a, "\n") {
		if !bm[l] {
			out = append(out, "- "+l)
		}
	}
	sort.Strings(out)
	if len(out) > 8 {
		out = out[:8]
	}
	return strings.Join(out, "\n")
}

// ---------------------------------------------------------------- building the served world

func buildArchive(es []Entry) []byte { return buildArchiveC(es, "") }

// buildArchiveC: the archive with a gzip header comment (ignored by every reader; used to pad
// a tampered archive to the exact length of the one it replaces).
func buildArchiveC(es []Entry, comment string) []byte {
	var buf bytes.Buffer
	gz := gzip.NewWriter(&buf)
	gz.Header.Comment = comment
	tw := tar.NewWriter(gz)
	for _, e := range es {
		h := &tar.Header{Name: e.Name, Mode: e.Mode}
		if h.Mode == 0 {
			h.Mode = 0o644
		}
		switch e.Type {
		case "dir":
			h.Typeflag = tar.TypeDir
			h.Mode = 0o755
		case "sym":
			h.Typeflag = tar.TypeSymlink
			h.Linkname = e.Link
		case "hard":
			h.Typeflag = tar.TypeLink
			h.Linkname = e.Link
		case "dev":
			h.Typeflag = tar.TypeChar
			h.Devmajor, h.Devminor = 1, 3
		default:
			h.Typeflag = tar.TypeReg
			h.Size = int64(len(e.contents))
			if e.LieSize > 0 {
				h.Size = int64(e.LieSize)
			}
		}
		if err := tw.WriteHeader(h); err != nil {
			break
		}
		if e.Type == "reg" {
			_, _ = tw.Write(e.contents)
		}
	}
	_ = tw.Flush() // (Close would refuse a lying size; the stream simply ends)
	_ = gz.Close()
	return buf.Bytes()
}

type seedReader struct{ r *rand.Rand }

func (s seedReader) Read(b []byte) (int, error) {
	for i := range b {
		b[i] = byte(s.r.IntN(256))
	}
	return len(b), nil
}

func keyID(pub ed25519.PublicKey) string {
	id, _ := index.KeyID(pub)
	return id
}

// publish builds the signed index for attempt i (it lists every connector version of the
// attempts up to i) and registers index, artifact and bundle URLs with the fake network.
func (w *World) publish(i int) {
	a := w.sc.Attempts[i]
	n := &simNet{files: map[string][]byte{}, fail: map[string]string{}}
	conns := map[string]*index.Connector{}
	var order []string
	for j := 0; j <= i; j++ {
		b := w.sc.Attempts[j]
		if b.Freshness {
			continue // a re-sign adds nothing to the content
		}
		c := conns[b.Conn]
		if c == nil {
			c = &index.Connector{Name: b.Conn, Publisher: index.Publisher{ExpectedOIDCIssuer: "https://issuer.sim", ExpectedIdentityPattern: "^https://sim/" + b.Conn + "/.*$"}}
			conns[b.Conn] = c
			order = append(order, b.Conn)
		}
		arch := w.archive[j]
		digest := sha256.Sum256(arch)
		base := fmt.Sprintf("http://sim/%s/%s", b.Conn, b.Version)
		ver := index.ConnectorVersion{
			Version: b.Version, MinConduitVersion: "0.1.0", MinProtocolVersion: "0.1.0",
			Artifacts: []index.Artifact{{
				OS: runtime.GOOS, Arch: runtime.GOARCH, Kind: registry.StandaloneArtifactKind,
				URL: base + "/artifact.tar.gz", SHA256: hex.EncodeToString(digest[:]), Size: int64(len(arch)),
				Signature: index.SignatureRef{BundleURL: base + "/sig.json"},
			}},
			SLSAProvenance: &index.ProvenanceRef{BundleURL: base + "/prov.json", PredicateType: "https://slsa.dev/provenance/v1"},
		}
		replaced := false
		for k := range c.Versions {
			if c.Versions[k].Version == b.Version {
				c.Versions[k] = ver
				replaced = true
			}
		}
		if !replaced {
			c.Versions = append(c.Versions, ver)
		}
		served := arch
		if b.CorruptBytes && j == i {
			served = append([]byte(nil), arch...)
			served[len(served)/2] ^= 0x5a
		}
		n.files[base+"/artifact.tar.gz"] = served
		n.files[base+"/sig.json"] = []byte(`{"sig":"sim"}`)
		n.files[base+"/prov.json"] = []byte(`{"prov":"sim"}`)
	}
	payload := index.Payload{SchemaVersion: 1, Index: index.IndexMeta{Version: a.IndexVersion, Timestamp: time.Now()}}
	for _, name := range order {
		payload.Connectors = append(payload.Connectors, *conns[name])
	}
	praw, _ := json.Marshal(payload)
	canonical, err := index.Canonicalize(praw)
	if err != nil {
		panic(err)
	}
	priv := w.priv
	if a.BadSignature {
		priv = w.badPriv
	}
	role, kid := "root", w.keyID
	if a.Freshness {
		role, kid = "freshness", keyID(w.freshPub)
		if !a.BadSignature {
			priv = w.freshPriv
		}
	}
	sig := ed25519.Sign(priv, canonical)
	env := map[string]any{"payload": payload, "signatures": []map[string]any{{"role": role, "keyId": kid, "algorithm": "ed25519", "signature": base64.StdEncoding.EncodeToString(sig)}}}
	iraw, _ := json.Marshal(env)
	n.files["http://sim/index.json"] = iraw
	base := fmt.Sprintf("http://sim/%s/%s", a.Conn, a.Version)
	switch a.NetFault {
	case "artifact-404":
		n.fail[base+"/artifact.tar.gz"] = "404"
	case "artifact-short":
		n.fail[base+"/artifact.tar.gz"] = "short"
	case "index-err":
		n.fail["http://sim/index.json"] = "err"
	case "bundle-err":
		n.fail[base+"/sig.json"] = "err"
	}
	w.net = n
	w.nets[i] = n
	http.DefaultTransport = dispatchRT{w}
	http.DefaultClient = &http.Client{Transport: dispatchRT{w}}
}

// dispatchRT serves a request from the network of the attempt that is executing.
type dispatchRT struct{ w *World }

func (d dispatchRT) RoundTrip(req *http.Request) (*http.Response, error) {
	return d.w.nets[d.w.cur].RoundTrip(req)
}

func (w *World) actorTag() string {
	if w.conc == nil {
		return ""
	}
	return fmt.Sprintf("[a%d] ", w.cur)
}

func newWorld(sc *Scenario, root string) *World {
	w := &World{sc: sc, root: root, target: filepath.Join(root, "target"), accepted: map[int][32]byte{}, archive: map[int][]byte{}, faultsInjected: map[string]int{}, nets: map[int]*simNet{}, started: map[int]bool{}}
	kr := rand.New(rand.NewPCG(uint64(sc.Seed), 77))
	w.pub, w.priv, _ = ed25519.GenerateKey(seedReader{kr})
	_, w.badPriv, _ = ed25519.GenerateKey(seedReader{kr})
	w.keyID = keyID(w.pub)
	w.freshPub, w.freshPriv, _ = ed25519.GenerateKey(seedReader{kr})
	for i, a := range sc.Attempts {
		w.archive[i] = buildArchive(a.Entries)
	}
	_ = os.MkdirAll(filepath.Join(root, "outside"), 0o755)
	for i := 1; i <= 3; i++ {
		_ = os.WriteFile(filepath.Join(root, "outside", fmt.Sprintf("canary-%d", i)), []byte(fmt.Sprintf("canary %d of seed %d", i, sc.Seed)), 0o644)
	}
	_ = os.MkdirAll(w.target, 0o755)
	w.statePath = registry.IndexStatePath(w.target)
	w.outsideBase = w.snapshotOutside()
	return w
}

// install runs attempt i through the real install pipeline.
func (w *World) install(i int) (err error) {
	w.cur, w.ops, w.crashed, w.faultFired, w.opLog = i, 0, false, false, nil
	w.dirty = map[string]int64{} // what earlier attempts wrote has reached the disk by now
	w.publish(i)
	w.started[i] = true
	simfs.Before, simfs.After = w.before, w.after
	defer func() { simfs.Before, simfs.After = nil, nil }()
	return w.runInstall(i)
}

// tamperCache models bit rot / tampering of stored bytes: every artifact in the download cache
// that is the archive of one of the scenario's attempts is replaced, at exactly the same
// length and with its meta.json untouched, by a well-formed archive whose root file has other
// contents. A later install that finds the entry must notice (the bytes no longer hash to the
// digest the index declares) and must not install from it. Returns how many entries changed.
func (w *World) tamperCache() int {
	dirs, _ := filepath.Glob(filepath.Join(w.target, ".registry", "cache", "*", "artifact"))
	sort.Strings(dirs)
	n := 0
	for _, p := range dirs {
		cur, err := os.ReadFile(p)
		if err != nil {
			continue
		}
		for i := range w.sc.Attempts {
			if !bytes.Equal(cur, w.archive[i]) {
				continue
			}
			for _, mask := range []byte{0xff, 0x55, 0xaa, 0x0f, 0x33} {
				evil := make([]Entry, len(w.sc.Attempts[i].Entries))
				copy(evil, w.sc.Attempts[i].Entries)
				for k := range evil {
					if evil[k].Type == "reg" {
						c := append([]byte(nil), evil[k].contents...)
						for j := range c {
							c[j] ^= mask
						}
						evil[k].contents = c
					}
				}
				raw := buildArchive(evil)
				if len(raw) < len(cur) {
					raw = buildArchiveC(evil, strings.Repeat("x", len(cur)-len(raw)-1))
				}
				if len(raw) == len(cur) && !bytes.Equal(raw, cur) {
					if os.WriteFile(p, raw, 0o600) == nil {
						n++
					}
					break
				}
			}
			break
		}
	}
	return n
}

// uninstall removes what attempt i installed through the real registry.Uninstall.
func (w *World) uninstall(i int) (err error) {
	w.cur, w.ops, w.crashed, w.faultFired, w.opLog = i, 0, false, false, nil
	w.dirty = map[string]int64{}
	simfs.Before, simfs.After = w.before, w.after
	defer func() { simfs.Before, simfs.After = nil, nil }()
	defer func() {
		if r := recover(); r != nil {
			w.violate("uninstall-panicked", fmt.Sprintf("uninstall of attempt %d panicked: %v", i, r))
			err = fmt.Errorf("panic: %v", r)
		}
	}()
	a := w.sc.Attempts[i]
	_, err = registry.Uninstall(registry.UninstallOptions{Name: a.Conn, Version: a.Version, ConnectorsPath: w.target, InstalledBy: "sim", LockTimeout: 2 * time.Second})
	return err
}

// runInstall: one call of registry.Install for attempt i (hooks and network are in place).
func (w *World) runInstall(i int) (err error) {
	a := w.sc.Attempts[i]
	hwmAtStart := w.hwm
	acceptedAtStart := w.acceptedMax
	defer func() {
		if r := recover(); r != nil {
			w.violate("install-panicked", fmt.Sprintf("attempt %d (%s): install panicked: %v", i, a.Shape, r))
			err = fmt.Errorf("panic: %v", r)
		}
		if err == nil && a.IndexVersion < hwmAtStart {
			w.violate("older-index-accepted", fmt.Sprintf("attempt %d: install succeeded with index version %d although version %d had been recorded as accepted before it started", i, a.IndexVersion, hwmAtStart))
		}
		if err == nil && a.IndexVersion < acceptedAtStart {
			w.violate("older-index-accepted", fmt.Sprintf("attempt %d: install succeeded with index version %d although an install with index version %d had succeeded (its index was accepted) before it started", i, a.IndexVersion, acceptedAtStart))
		}
		if err == nil && a.IndexVersion > w.acceptedMax {
			w.acceptedMax = a.IndexVersion
		}
	}()
	tv := &registry.TrustedVerifier{
		Anchors:      index.TrustAnchors{Roots: map[string]ed25519.PublicKey{w.keyID: w.pub}, Freshness: map[string]ed25519.PublicKey{keyID(w.freshPub): w.freshPub}},
		StatePath:    w.statePath,
		LockTimeout:  2 * time.Second,
		MaxStaleness: 24 * time.Hour,
	}
	opts := registry.InstallOptions{
		Name: a.Conn, Version: a.Version, ConnectorsPath: w.target,
		IndexURL: "http://sim/index.json", IndexVerifier: tv, ArtifactVerifier: &simVerifier{w: w},
		RunningConduitVersion: "0.99.0", RunningProtocolVersion: "0.99.0", InstalledBy: "sim",
		LockTimeout: 2 * time.Second, HTTPClient: &http.Client{Transport: dispatchRT{w}},
		AllowUnsigned: a.Unsigned, TTY: a.TTY, CIEnv: a.CI, IsMCP: a.MCP, EnvVarSet: a.EnvVar, TypedConfirmation: a.Typed, OperatorAllowUnsigned: a.OperatorAllow,
	}
	ctx, cancel := context.WithTimeout(context.Background(), 20*time.Second)
	defer cancel()
	_, err = registry.Install(ctx, opts)
	return err
}

// ---------------------------------------------------------------- tree copy

func copyTree(src, dst string) error {
	return filepath.Walk(src, func(p string, info fs.FileInfo, err error) error {
		if err != nil {
			return err
		}
		rel, _ := filepath.Rel(src, p)
		q := filepath.Join(dst, rel)
		switch {
		case info.IsDir():
			return os.MkdirAll(q, info.Mode().Perm()|0o700)
		case info.Mode()&fs.ModeSymlink != 0:
			l, _ := os.Readlink(p)
			return os.Symlink(l, q)
		case info.Mode().IsRegular():
			b, err := os.ReadFile(p)
			if err != nil {
				return err
			}
			return os.WriteFile(q, b, info.Mode().Perm())
		}
		return nil
	})
}

// ---------------------------------------------------------------- one scenario

type Stats struct {
	Runs, CrashPoints, FaultPoints, Installs, Installed, Refused int
	Shapes                                                      map[string]int
	Faults                                                      map[string]int
	Ops                                                         int
	PowerLossPoints, UnsyncedFilesCut, TornBinaries, Uninstalls int
	CacheEntriesTampered                                        int // cached artifacts replaced (same length, other contents) before a re-install
	FreshnessAttempts, FreshnessAccepted                        int // freshness-only re-signed indexes presented / accepted (clean passes)
	ConcRuns, ConcCrashes, ConcFaults, LockWaits, LockTimeouts  int
	Schedules                                                   int // distinct schedules (sequences of scheduler picks) of interleaved installs
	schedules                                                   map[uint64]bool
}

type Found struct {
	Seed     int64     `json:"seed"`
	Attempt  int       `json:"attempt"`
	Mode     string    `json:"mode"` // clean crash-before crash-after fault
	Op       int       `json:"op"`
	Viol     Violation `json:"violation"`
	Scenario *Scenario `json:"scenario"`
	OpLog    []string  `json:"op_log,omitempty"`
	Schedule string    `json:"schedule,omitempty"` // mode conc: which install ran at each step
}

var sandboxSeq int

// searchDeadline bounds a search in wall time (set in search mode only; it decides how much
// is explored, never what a given (seed, attempt, mode, operation) does).
var searchDeadline time.Time

func overBudget() bool { return !searchDeadline.IsZero() && time.Now().After(searchDeadline) }

func mkSandbox(base string) string {
	sandboxSeq++
	d := filepath.Join(base, fmt.Sprintf("sb-%d-%d", os.Getpid(), sandboxSeq))
	_ = os.RemoveAll(d)
	_ = os.MkdirAll(d, 0o755)
	return d
}

// carry moves the knowledge a world has accumulated over earlier attempts into a copy.
func (w *World) clone(root string) *World {
	n := newWorld(w.sc, root) // (re-creates canaries identically; tree is then overwritten by copy)
	n.hwm = w.hwm
	n.acceptedMax = w.acceptedMax
	for k, v := range w.accepted {
		n.accepted[k] = v
	}
	n.outsideBase = w.outsideBase
	for k, v := range w.started {
		n.started[k] = v
	}
	for k, v := range w.nets {
		n.nets[k] = v
	}
	return n
}

// RunScenario: clean pass, then every crash point and every single fault of every attempt.
// only >= 0 restricts the enumeration to one (attempt, mode, op).
func RunScenario(sc *Scenario, base string, maxPoints int, only *Found, st *Stats) []Found {
	var found []Found
	report := func(w *World, attempt int, mode string, op int) {
		for _, v := range w.viol {
			dup := false
			for _, f := range found {
				if f.Viol.Class == v.Class {
					dup = true
				}
			}
			if !dup {
				found = append(found, Found{Seed: sc.Seed, Attempt: attempt, Mode: mode, Op: op, Viol: v, Scenario: sc, OpLog: tail(w.opLog, 40)})
			}
		}
		w.viol = nil
	}
	root := mkSandbox(base)
	defer os.RemoveAll(root)
	w := newWorld(sc, root)
	lastInstalled := -1
	for i, a := range sc.Attempts {
		// snapshot of the tree before attempt i
		pre := mkSandbox(base)
		_ = copyTree(root, pre)
		preW := *w // (maps are copied below: the clean pass must not leak what it learns into the enumeration)
		preW.accepted, preW.started, preW.nets = map[int][32]byte{}, map[int]bool{}, map[int]*simNet{}
		for k, v := range w.accepted {
			preW.accepted[k] = v
		}
		for k, v := range w.started {
			preW.started[k] = v
		}
		for k, v := range w.nets {
			preW.nets[k] = v
		}
		// ---- clean pass
		err := w.install(i)
		st.Installs++
		st.Runs++
		st.Shapes[a.Shape]++
		if err == nil {
			st.Installed++
		} else {
			st.Refused++
		}
		if a.Freshness {
			st.FreshnessAttempts++
			if err == nil {
				st.FreshnessAccepted++
			}
		}
		nops := w.ops
		st.Ops += nops
		w.checkTree(fmt.Sprintf("after attempt %d (%s, err=%v)", i, a.Shape, err != nil))
		// an index older than the high-water mark must have been refused before anything else happened
		if only == nil || only.Mode == "clean" {
			report(w, i, "clean", 0)
		} else {
			w.viol = nil
		}
		// ---- enumeration on copies of the pre-state
		step := 1
		if maxPoints > 0 && nops > maxPoints {
			step = (nops + maxPoints - 1) / maxPoints
		}
		for op := 1; op <= nops; op += step {
			for _, mode := range []string{"crash-before", "crash-after", "fault", "powerloss-before", "powerloss-after"} {
				if only != nil && (only.Attempt != i || only.Mode != mode || only.Op != op) {
					continue
				}
				if only == nil && overBudget() {
					break
				}
				sb := mkSandbox(base)
				_ = copyTree(pre, sb)
				x := preW.clone(sb)
				x.crashAt, x.faultAt = 0, 0
				switch mode {
				case "crash-before":
					x.crashAt = op
				case "crash-after":
					x.crashAt, x.crashAfter = op, true
				case "fault":
					x.faultAt = op
				case "powerloss-before":
					x.crashAt = op
				case "powerloss-after":
					x.crashAt, x.crashAfter = op, true
				}
				_ = x.install(i)
				st.Runs++
				if strings.HasPrefix(mode, "powerloss") {
					st.PowerLossPoints++
					st.UnsyncedFilesCut += x.powerLoss(rand.New(rand.NewPCG(uint64(sc.Seed), uint64(i*100003+op*7+len(mode)))))
				} else if mode == "fault" {
					st.FaultPoints++
					for k, v := range x.faultsInjected {
						st.Faults[k] += v
					}
				} else {
					st.CrashPoints++
				}
				x.checkTree(fmt.Sprintf("attempt %d (%s) interrupted: %s at file-system operation %d (%s)", i, a.Shape, mode, op, opAt(x.opLog, op)))
				// the process comes back (or the operator retries): the same install must behave
				x.crashAt, x.faultAt, x.crashAfter = 0, 0, false
				_ = x.install(i)
				st.Runs++
				x.checkTree(fmt.Sprintf("retry of attempt %d (%s) after %s at file-system operation %d", i, a.Shape, mode, op))
				st.TornBinaries += x.tornBinaries
				report(x, i, mode, op)
				_ = os.RemoveAll(sb)
			}
		}
		_ = os.RemoveAll(pre)
		if err == nil {
			lastInstalled = i
		}
	}
	// ---- uninstall of the attempt installed last: clean, then every interruption of it
	if lastInstalled >= 0 && (only == nil || strings.HasPrefix(only.Mode, "un-")) && !overBudgetOr(only) {
		i := lastInstalled
		pre := mkSandbox(base)
		_ = copyTree(root, pre)
		preW := *w
		preW.accepted, preW.started, preW.nets = map[int][32]byte{}, map[int]bool{}, map[int]*simNet{}
		for k, v := range w.accepted {
			preW.accepted[k] = v
		}
		for k, v := range w.started {
			preW.started[k] = v
		}
		for k, v := range w.nets {
			preW.nets[k] = v
		}
		err := w.uninstall(i)
		st.Runs++
		st.Uninstalls++
		nops := w.ops
		w.checkTree(fmt.Sprintf("after uninstall of attempt %d (err=%v)", i, err != nil))
		if only == nil || only.Mode == "un-clean" {
			report(w, i, "un-clean", 0)
		} else {
			w.viol = nil
		}
		for op := 1; op <= nops; op++ {
			for _, mode := range []string{"un-crash-before", "un-crash-after", "un-fault", "un-powerloss-before", "un-powerloss-after"} {
				if only != nil && (only.Attempt != i || only.Mode != mode || only.Op != op) {
					continue
				}
				if only == nil && overBudget() {
					break
				}
				sb := mkSandbox(base)
				_ = copyTree(pre, sb)
				x := preW.clone(sb)
				x.crashAt, x.faultAt = 0, 0
				switch mode {
				case "un-crash-before", "un-powerloss-before":
					x.crashAt = op
				case "un-crash-after", "un-powerloss-after":
					x.crashAt, x.crashAfter = op, true
				case "un-fault":
					x.faultAt = op
				}
				_ = x.uninstall(i)
				st.Runs++
				switch {
				case strings.HasPrefix(mode, "un-powerloss"):
					st.PowerLossPoints++
					st.UnsyncedFilesCut += x.powerLoss(rand.New(rand.NewPCG(uint64(sc.Seed), uint64(900001+op*7+len(mode)))))
				case mode == "un-fault":
					st.FaultPoints++
					for k, v := range x.faultsInjected {
						st.Faults[k] += v
					}
				default:
					st.CrashPoints++
				}
				x.checkTree(fmt.Sprintf("uninstall of attempt %d interrupted: %s at file-system operation %d (%s)", i, mode, op, opAt(x.opLog, op)))
				// the operator retries the uninstall, then installs the same version again
				x.crashAt, x.faultAt, x.crashAfter = 0, 0, false
				_ = x.uninstall(i)
				st.Runs++
				x.checkTree(fmt.Sprintf("retry of the uninstall of attempt %d after %s at operation %d", i, mode, op))
				tampered := 0
				if (op+len(mode))%2 == 0 {
					tampered = x.tamperCache()
					st.CacheEntriesTampered += tampered
				}
				_ = x.install(i)
				st.Runs++
				x.checkTree(fmt.Sprintf("re-install of attempt %d after an interrupted uninstall (%s at operation %d; %d cached artifacts replaced by same-length archives with other contents before it)", i, mode, op, tampered))
				st.TornBinaries += x.tornBinaries
				report(x, i, mode, op)
				_ = os.RemoveAll(sb)
			}
		}
		_ = os.RemoveAll(pre)
	}
	return found
}

func overBudgetOr(only *Found) bool { return only == nil && overBudget() }

func opAt(log []string, op int) string {
	if op-1 < len(log) && op >= 1 {
		return log[op-1]
	}
	return "?"
}

func tail(s []string, n int) []string {
	if len(s) > n {
		s = s[len(s)-n:]
	}
	return append([]string(nil), s...)
}

// ---------------------------------------------------------------- test entry

type Report struct {
	SeedFirst, SeedLast int64
	Stats               Stats
	WallS               float64
	Found               []Found
	Samples             []any
}

func envInt(k string, d int64) int64 {
	var v int64
	if _, err := fmt.Sscanf(os.Getenv(k), "%d", &v); err != nil {
		return d
	}
	return v
}

func TestReg(t *testing.T) {
	mode := os.Getenv("VERIF_MODE")
	base := os.Getenv("VERIF_SANDBOX")
	if base == "" {
		base = "/verif/.build/c19"
	}
	_ = os.MkdirAll(base, 0o755)
	out := os.Getenv("VERIF_OUT")
	st := Stats{Shapes: map[string]int{}, Faults: map[string]int{}, schedules: map[uint64]bool{}}
	nsched := int(envInt("VERIF_SCHEDULES", 6))
	switch mode {
	case "replay":
		var f Found
		raw, err := os.ReadFile(os.Getenv("VERIF_REPLAY"))
		if err != nil {
			t.Fatal(err)
		}
		if err := json.Unmarshal(raw, &f); err != nil {
			t.Fatal(err)
		}
		sc := GenScenario(f.Seed)
		var found []Found
		if f.Mode == "conc" {
			found = RunConcurrent(sc, base, f.Op+1, &f, &st)
		} else {
			found = RunScenario(sc, base, 0, &f, &st)
		}
		writeJSON(out, Report{Found: found, Stats: st})
	default:
		first := envInt("VERIF_SEED_BASE", 1)
		n := envInt("VERIF_MAXRUNS", 50)
		budget := time.Duration(envInt("VERIF_BUDGET_S", 30)) * time.Second
		maxPoints := int(envInt("VERIF_MAXPOINTS", 0))
		start := time.Now()
		searchDeadline = start.Add(budget + budget/4)
		rep := Report{SeedFirst: first}
		for s := first; s < first+n && time.Since(start) < budget; s++ {
			sc := GenScenario(s)
			found := RunScenario(sc, base, maxPoints, nil, &st)
			found = append(found, RunConcurrent(sc, base, nsched, nil, &st)...)
			rep.SeedLast = s
			rep.Found = append(rep.Found, found...)
			if len(rep.Samples) < 2 {
				rep.Samples = append(rep.Samples, sc)
			}
			if len(rep.Found) >= 5 {
				break
			}
		}
		st.Schedules = len(st.schedules)
		rep.Stats = st
		rep.WallS = time.Since(start).Seconds()
		writeJSON(out, rep)
	}
}

func writeJSON(path string, v any) {
	b, _ := json.MarshalIndent(v, "", " ")
	if path == "" {
		fmt.Println(string(b))
		return
	}
	_ = os.WriteFile(path, b, 0o644)
}
