#!/bin/bash
# Build the simulation harness test binary from /repo's current working tree.
set -e
export GOFLAGS=-mod=mod GOPROXY=off GOSUMDB=off GOTOOLCHAIN=local
mkdir -p /verif/.build
python3 /verif/tools/mkoverlay.py /verif/.build/overlay >/dev/null
cd /verif/harness
cp /repo/go.sum go.sum
/opt/veriftools/go1.26.8/bin/go test -c -vet=off -overlay /verif/.build/overlay/overlay.json -o /verif/.build/harness.test . 
