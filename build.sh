#!/bin/bash
# Build the simulation harness test binary from /repo's current working tree.
set -e
export GOFLAGS=-mod=mod GOPROXY=off GOSUMDB=off GOTOOLCHAIN=local
V="$(cd "$(dirname "$0")" && pwd)"
mkdir -p "$V/.build"
python3 "$V/tools/mkoverlay.py" "$V/.build/overlay" >/dev/null
cd "$V/harness"
cp /repo/go.sum go.sum
/opt/veriftools/go1.26.8/bin/go test -c -vet=off -overlay "$V/.build/overlay/overlay.json" -o "$V/.build/harness.test" .
