#!/bin/bash
# Build the simulation harness test binary from the repository's current working tree
# (/repo, or $VERIF_REPO for a scratch checkout with a seeded change).
set -e
export GOFLAGS=-mod=mod GOPROXY=off GOSUMDB=off GOTOOLCHAIN=local
V="$(cd "$(dirname "$0")" && pwd)"
R="${VERIF_REPO:-/repo}"
mkdir -p "$V/.build"
python3 "$V/tools/mkoverlay.py" "$V/.build/overlay" >/dev/null
cd "$V/harness"
sed "s|=> /repo|=> $R|" go.mod > "$V/.build/harness.mod"
cp "$R/go.sum" "$V/.build/harness.sum"
/opt/veriftools/go1.26.8/bin/go test -modfile="$V/.build/harness.mod" -c -vet=off -overlay "$V/.build/overlay/overlay.json" -o "$V/.build/harness.test" .
