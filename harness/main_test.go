package harness

//go:debug randseednop=0

import (
	"encoding/json"
	"fmt"
	"os"
	"strconv"
	"strings"
	"testing"
	"time"
)

func envInt(k string, def int64) int64 {
	if v := os.Getenv(k); v != "" {
		if n, err := strconv.ParseInt(v, 10, 64); err == nil {
			return n
		}
	}
	return def
}

type ReplayFile struct {
	Property  string     `json:"property"`
	Violation *Violation `json:"violation,omitempty"`
	Config    *Config    `json:"config"`
	Choices   []Choice   `json:"choices"`
	Tail      []string   `json:"tail,omitempty"`
}

type WorkerReport struct {
	Family           string         `json:"family"`
	SeedFirst        int64          `json:"seed_first"`
	SeedLast         int64          `json:"seed_last"`
	Runs             int            `json:"runs"`
	WallS            float64        `json:"wall_s"`
	SimMs            int64          `json:"sim_ms"`
	Steps            int64          `json:"steps"`
	Events           int64          `json:"events"`
	Faults           map[string]int `json:"faults"`
	Probes           map[string]int `json:"probes"`
	Shapes           []string       `json:"shapes"`
	NonTrivial       []string       `json:"nontrivial_shapes"`
	Unfinished       int            `json:"unfinished"`
	UnfinishedSeeds  []string       `json:"unfinished_seeds,omitempty"`
	Leaked           int            `json:"leaked"`
	Violations       []ReplayFile   `json:"violations,omitempty"`
	RepeatViolations int            `json:"repeat_violations,omitempty"`
	Samples          []any          `json:"samples,omitempty"`
	Engines          map[string]int `json:"engines"`
}

func writeJSON(path string, v any) {
	b, _ := json.MarshalIndent(v, "", " ")
	if path == "" || path == "-" {
		fmt.Println(string(b))
		return
	}
	if err := os.WriteFile(path, b, 0o644); err != nil {
		fmt.Fprintln(os.Stderr, "write", path, err)
		os.Exit(2)
	}
}

func tail(evs []Event, n int) []string {
	if len(evs) > n {
		evs = evs[len(evs)-n:]
	}
	out := make([]string, len(evs))
	for i, e := range evs {
		out[i] = e.String()
	}
	return out
}

func TestSim(t *testing.T) {
	mode := os.Getenv("VERIF_MODE")
	if mode == "" {
		t.Skip("VERIF_MODE not set")
	}
	initProcess()
	if os.Getenv("VERIF_ENGINE_LOG") != "" {
		EngineLog = os.Stderr
	}
	warmUp(t)
	if os.Getenv("VERIF_TRACE_ENABLED") != "" {
		TraceEnabled = os.Stderr
	}
	switch mode {
	case "search":
		searchMode(t)
	case "replay", "guide":
		replayMode(t, mode == "replay")
	case "det":
		detMode(t)
	case "show":
		cfg := GenConfig(envInt("VERIF_SEED", 1), os.Getenv("VERIF_FAMILY"))
		if e := os.Getenv("VERIF_ENGINE"); e != "" {
			cfg = GenConfigEngine(cfg.Seed, cfg.Family, e)
		}
		b, _ := json.Marshal(cfg)
		fmt.Println(string(b))
		DumpStacks = os.Getenv("VERIF_STACKS") != ""
		res := RunOne(t, cfg, nil, false)
		for _, e := range res.events {
			fmt.Println(e.String())
		}
		if res.Stacks != "" {
			maxB := 0
			for _, g := range strings.Split(res.Stacks, "\n\n") {
				if i := strings.Index(g, "synctest bubble "); i >= 0 {
					var n int
					fmt.Sscanf(g[i+16:], "%d", &n)
					if n > maxB {
						maxB = n
					}
				}
			}
			tag := fmt.Sprintf("synctest bubble %d]", maxB)
			for _, g := range strings.Split(res.Stacks, "\n\n") {
				if strings.Contains(g, tag) && strings.Contains(g, "conduitio/conduit/pkg") && !strings.Contains(g, "World).park") {
					fmt.Println(g)
					fmt.Println()
				}
			}
		}
		fmt.Printf("parked at end: %v\n", res.Parked)
		fmt.Printf("steps=%d finished=%v leaked=%v notes=%v diverged=%q\n", res.Steps, res.Finished, res.Leaked, res.Notes, res.Diverged)
		for _, v := range res.Violations {
			fmt.Printf("VIOLATION %s %s: %s (seq %d)\n", v.Prop, v.Class, v.Msg, v.Seq)
		}
	default:
		t.Fatalf("unknown VERIF_MODE %q", mode)
	}
}

func searchMode(t *testing.T) {
	family := os.Getenv("VERIF_FAMILY")
	base := envInt("VERIF_SEED_BASE", 1)
	worker := envInt("VERIF_WORKER", 0)
	nworkers := envInt("VERIF_NWORKERS", 1)
	budget := time.Duration(envInt("VERIF_BUDGET_S", 10)) * time.Second
	maxRuns := envInt("VERIF_MAXRUNS", 1<<40)
	maxViol := int(envInt("VERIF_MAXVIOL", 1))
	engine := os.Getenv("VERIF_ENGINE")
	out := os.Getenv("VERIF_OUT")
	progress := os.Getenv("VERIF_PROGRESS")
	rep := &WorkerReport{Family: family, Faults: map[string]int{}, Probes: map[string]int{}, Engines: map[string]int{}}
	shapes := map[string]bool{}
	nt := map[string]bool{}
	seenViol := map[string]bool{}
	startWall := time.Now()
	var pf *os.File
	if progress != "" {
		pf, _ = os.Create(progress)
	}
	var seedList []int64
	for _, f := range strings.Split(os.Getenv("VERIF_SEEDS"), ",") {
		if n, err := strconv.ParseInt(strings.TrimSpace(f), 10, 64); err == nil {
			seedList = append(seedList, n)
		}
	}
	if len(seedList) > 0 {
		maxRuns = int64(len(seedList))
	}
	for i := int64(0); i < maxRuns; i++ {
		if time.Since(startWall) > budget {
			break
		}
		seed := base + worker + i*nworkers
		if len(seedList) > 0 {
			seed = seedList[i]
		}
		if rep.Runs == 0 {
			rep.SeedFirst = seed
		}
		rep.SeedLast = seed
		cfg := GenConfig(seed, family)
		if engine != "" && cfg.Engine != engine {
			cfg = GenConfigEngine(seed, family, engine)
		}
		if pf != nil {
			fmt.Fprintf(pf, "RUN seed=%d\n", seed)
		}
		DumpStacks = seed == envInt("VERIF_STACK_SEED", -1)
		res := RunOne(t, cfg, nil, false)
		if DumpStacks {
			fmt.Println(res.Stacks)
			for _, e := range res.events {
				fmt.Println(e.String())
			}
		}
		rep.Runs++
		rep.Engines[cfg.Engine]++
		rep.SimMs += res.SimMs
		rep.Steps += int64(res.Steps)
		rep.Events += int64(res.Events)
		for k, v := range res.Faults {
			rep.Faults[k] += v
		}
		for k, v := range res.Probes {
			rep.Probes[k] += v
		}
		if !res.Finished {
			rep.Unfinished++
			if len(rep.UnfinishedSeeds) < 40 {
				rep.UnfinishedSeeds = append(rep.UnfinishedSeeds, fmt.Sprintf("%d:%s:f%d:%v", seed, cfg.Engine, cfg.MaxFaults, res.Notes))
			}
		}
		if res.Leaked {
			rep.Leaked++
		}
		shapes[res.Shape] = true
		if res.NonTrivial {
			nt[res.Shape] = true
		}
		if len(rep.Samples) < 2 {
			rep.Samples = append(rep.Samples, map[string]any{"seed": seed, "config": cfg, "events": len(res.events), "steps": res.Steps, "first_events": head(res.events, 25)})
		}
		if len(res.Violations) > 0 {
			for vi, v := range res.Violations {
				vv := v
				if vi > 0 && cfg.Focus != "" && v.Prop != cfg.Focus {
					// the run went on after an earlier violation (it only stops for the focus
					// property): what other properties' oracles say about the rest of it may be a
					// mere consequence of that first defect and is not passed on to their owners
					continue
				}
				key := v.Prop + "|" + v.Class + "|" + cfg.Engine
				if seenViol[key] {
					rep.RepeatViolations++
					continue // one replay file per (property, class, engine) and worker
				}
				seenViol[key] = true
				rep.Violations = append(rep.Violations, ReplayFile{Property: v.Prop, Violation: &vv, Config: cfg, Choices: res.choices, Tail: tail(res.events, 60)})
			}
			if len(rep.Violations) >= maxViol {
				break
			}
		}
		if rep.Runs%50 == 0 && os.Getenv("VERIF_NOGC") == "" {
			gcBetweenRuns()
		}
	}
	rep.WallS = time.Since(startWall).Seconds()
	for s := range shapes {
		rep.Shapes = append(rep.Shapes, s)
	}
	for s := range nt {
		rep.NonTrivial = append(rep.NonTrivial, s)
	}
	writeJSON(out, rep)
}

func head(evs []Event, n int) []string {
	if len(evs) > n {
		evs = evs[:n]
	}
	out := make([]string, len(evs))
	for i, e := range evs {
		out[i] = e.String()
	}
	return out
}

func replayMode(t *testing.T, strict bool) {
	path := os.Getenv("VERIF_REPLAY")
	raw, err := os.ReadFile(path)
	if err != nil {
		fmt.Fprintln(os.Stderr, "replay:", err)
		os.Exit(2)
	}
	var rf ReplayFile
	if err := json.Unmarshal(raw, &rf); err != nil {
		fmt.Fprintln(os.Stderr, "replay:", err)
		os.Exit(2)
	}
	res := RunOne(t, rf.Config, rf.Choices, strict)
	out := map[string]any{
		"violations": res.Violations, "diverged": res.Diverged, "hash": res.Hash, "steps": res.Steps,
		"events": res.Events, "finished": res.Finished, "choices": res.choices, "notes": res.Notes,
	}
	if os.Getenv("VERIF_DUMP") != "" {
		out["log"] = tail(res.events, 100000)
	} else {
		out["tail"] = tail(res.events, 60)
	}
	writeJSON(os.Getenv("VERIF_OUT"), out)
}

// detMode: run each seed twice and print "seed hash" lines for cross-process diffing.
func detMode(t *testing.T) {
	TraceDraws = os.Getenv("VERIF_TRACE_DRAWS") != ""
	family := os.Getenv("VERIF_FAMILY")
	base := envInt("VERIF_SEED_BASE", 1)
	n := envInt("VERIF_MAXRUNS", 20)
	lines := ""
	// vary the process history: unrelated runs first (their results are discarded)
	for i := int64(0); i < envInt("VERIF_DET_PREFIX", 0); i++ {
		RunOne(t, GenConfig(7700000+envInt("VERIF_DET_PREFIX", 0)*1000+i, family), nil, false)
	}
	for i := int64(0); i < n; i++ {
		cfg := GenConfig(base+i, family)
		a := RunOne(t, cfg, nil, false)
		cfg2 := GenConfig(base+i, family)
		b := RunOne(t, cfg2, nil, false)
		// and a strict replay of the recorded choices
		cfg3 := GenConfig(base+i, family)
		c := RunOne(t, cfg3, a.choices, true)
		lines += fmt.Sprintf("%d %s %s %s %d %s\n", base+i, a.Hash, b.Hash, c.Hash, a.Events, c.Diverged)
		if a.Hash != b.Hash || a.Hash != c.Hash {
			lines += fmt.Sprintf("MISMATCH seed=%d\n", base+i)
			other := b
			if a.Hash == b.Hash {
				other = c
			}
			if TraceDraws {
				for j := 1; j < len(a.draws) && j < len(other.draws); j++ {
					if a.draws[j]-a.draws[0] != other.draws[j]-other.draws[0] {
						lines += fmt.Sprintf("  draws differ first at step %d: A=%d B=%d (prev A=%d B=%d) choiceA=%v choiceB=%v\n", j, a.draws[j]-a.draws[0], other.draws[j]-other.draws[0], a.draws[j-1]-a.draws[0], other.draws[j-1]-other.draws[0], a.choices[j-1], other.choices[j-1])
						break
					}
				}
			}
			for j := 0; j < len(a.events) && j < len(other.events); j++ {
				if a.events[j].String() != other.events[j].String() {
					for k := max(0, j-6); k <= j; k++ {
						lines += "  A " + a.events[k].String() + "\n"
					}
					lines += "  B " + other.events[j].String() + "\n"
					for k := max(0, j-8); k < len(a.choices) && k < len(other.choices) && k < j+400; k++ {
						if a.choices[k] != other.choices[k] {
							lines += fmt.Sprintf("  first differing choice #%d: A=%v B=%v\n", k, a.choices[k], other.choices[k])
							break
						}
					}
					break
				}
			}
		}
	}
	if out := os.Getenv("VERIF_OUT"); out != "" {
		os.WriteFile(out, []byte(lines), 0o644)
	} else {
		fmt.Print(lines)
	}
}

// warmUp runs a few throw-away simulations so that process-wide lazy initialisation
// (metrics registries, sync.Once guarded tables, pools) happens before any run that counts.
func warmUp(t *testing.T) {
	focus := os.Getenv("VERIF_FOCUS")
	os.Setenv("VERIF_FOCUS", "")
	for i, eng := range []string{"v1", "v2", "v1", "v2"} {
		cfg := GenConfigEngine(int64(900001+i), "pipe", eng)
		RunOne(t, cfg, nil, false)
	}
	os.Setenv("VERIF_FOCUS", focus)
}
