package harness

// Engine stack (real code) wired to simulator fakes, scenario set-up, and the
// simulated clients that drive the control plane.

import (
	"context"
	"fmt"
	"io"
	"strings"
	"time"

	"github.com/conduitio/conduit/pkg/connector"
	"github.com/conduitio/conduit/pkg/foundation/cerrors"
	"github.com/conduitio/conduit/pkg/foundation/log"
	"github.com/conduitio/conduit/pkg/lifecycle"
	lifecyclev2 "github.com/conduitio/conduit/pkg/lifecycle-poc"
	"github.com/conduitio/conduit/pkg/pipeline"
	"github.com/conduitio/conduit/pkg/processor"
	"github.com/conduitio/conduit/pkg/provisioning"
	"github.com/rs/zerolog"
)

type Lifecycle interface {
	Init(ctx context.Context) error
	Start(ctx context.Context, id string) error
	Stop(ctx context.Context, id string, force bool) error
	StopAndWait(ctx context.Context, id string) error
	WaitPipeline(id string) error
	Wait(timeout time.Duration) error
	ReconfigureProcessor(ctx context.Context, pipelineID, processorID string) error
}

type Stack struct {
	w    *World
	inc  int
	db   *storeHandle
	log  log.CtxLogger
	pers *connector.Persister
	conn *connector.Service
	pipe *pipeline.Service
	proc *processor.Service
	plug *PluginService
	pplg *ProcPluginService
	life Lifecycle
	dead chan struct{}
	v1   *lifecycle.Service
	v2   *lifecyclev2.Service
	prov *provisioning.Service // built on demand (family apply)

	failures []string
}

var EngineLog io.Writer // set to capture engine logs (debugging replays)

func (w *World) newStack() *Stack {
	st := &Stack{w: w, inc: w.inc, dead: make(chan struct{})}
	st.db = &storeHandle{s: w.db, inc: st.inc}
	if EngineLog != nil {
		zl := zerolog.New(zerolog.ConsoleWriter{Out: EngineLog, NoColor: true, TimeFormat: "15:04:05.000"}).With().Timestamp().Logger().Level(zerolog.TraceLevel)
		st.log = log.New(zl)
	} else {
		st.log = log.Nop()
	}
	cfg := w.cfg
	st.pers = connector.NewPersister(st.log, st.db, time.Duration(cfg.PersistDelayMs)*time.Millisecond, cfg.PersistBundle)
	st.conn = connector.NewService(st.log, st.db, st.pers)
	st.pipe = pipeline.NewService(st.log, st.db)
	st.pplg = &ProcPluginService{w: w, inc: st.inc}
	st.proc = processor.NewService(st.log, st.db, st.pplg)
	st.plug = &PluginService{w: w, inc: st.inc}
	rec := &lifecycle.ErrRecoveryCfg{
		MinDelay:         time.Duration(cfg.Recovery.MinDelayMs) * time.Millisecond,
		MaxDelay:         time.Duration(cfg.Recovery.MaxDelayMs) * time.Millisecond,
		BackoffFactor:    cfg.Recovery.Factor,
		MaxRetries:       cfg.Recovery.MaxRetries,
		MaxRetriesWindow: time.Duration(cfg.Recovery.WindowMs) * time.Millisecond,
	}
	if cfg.Engine == "v2" {
		st.v2 = lifecyclev2.NewService(st.log, rec, st.conn, st.proc, st.plug, st.pipe, true)
		st.v2.OnFailure(func(e lifecyclev2.FailureEvent) {
			w.log(Event{Kind: "FAILURE", Ent: e.ID, Inc: st.inc, Err: errText(e.Error)})
		})
		st.life = st.v2
	} else {
		st.v1 = lifecycle.NewService(st.log, rec, st.conn, st.proc, st.plug, st.pipe)
		st.v1.OnFailure(func(e lifecycle.FailureEvent) {
			w.log(Event{Kind: "FAILURE", Ent: e.ID, Inc: st.inc, Err: errText(e.Error)})
		})
		st.life = st.v1
	}
	return st
}

func errText(err error) string {
	if err == nil {
		return ""
	}
	s := err.Error()
	if len(s) > 600 {
		s = s[:600] + "..."
	}
	return s
}

// boot mirrors conduit.Runtime's start-up order: processors, connectors, pipelines, lifecycle.
func (st *Stack) boot(ctx context.Context) error {
	if err := st.proc.Init(ctx); err != nil {
		return cerrors.Errorf("processor init: %w", err)
	}
	if err := st.conn.Init(ctx); err != nil {
		return cerrors.Errorf("connector init: %w", err)
	}
	if err := st.pipe.Init(ctx); err != nil {
		return cerrors.Errorf("pipeline init: %w", err)
	}
	st.w.log(Event{Kind: "BOOT", Inc: st.inc})
	st.w.bootedInc = st.inc
	if err := st.life.Init(ctx); err != nil {
		return cerrors.Errorf("lifecycle init: %w", err)
	}
	st.w.bootOK[st.inc] = true
	return nil
}

// stopAll mirrors the runtime's shutdown sequence.
func (st *Stack) stopAll(ctx context.Context) error {
	if st.v1 != nil {
		st.v1.StopAll(ctx, pipeline.ErrGracefulShutdown)
		return nil
	}
	return st.v2.StopAll(ctx, false)
}

// setupScenario creates the pipeline, connectors and processors of cfg through the
// real services (store in pass-through mode: set-up is not part of the explored run).
func (st *Stack) setupScenario(ctx context.Context) error {
	w, cfg := st.w, st.w.cfg
	w.db.passthrough = true
	defer func() { w.db.passthrough = false }()
	pl, err := st.pipe.Create(ctx, PipelineID, pipeline.Config{Name: "sim-pipeline"}, pipeline.ProvisionTypeAPI)
	if err != nil {
		return err
	}
	_, err = st.pipe.UpdateDLQ(ctx, pl.ID, pipeline.DLQ{
		Plugin: "sim-dlq", Settings: map[string]string{}, WindowSize: cfg.DLQ.WindowSize, WindowNackThreshold: cfg.DLQ.Threshold,
	})
	if err != nil {
		return err
	}
	if cfg.Scenario == "apply" {
		// a processor that applies can add and remove; its condition never holds, so it never touches a record
		w.procs[inertProcID] = newProcSys(w, ProcCfg{ID: inertProcID, Workers: 1, Cond: condNever})
	}
	mkProcs := func(ps []ProcCfg, parent processor.Parent, add func(string) error) error {
		for _, pc := range ps {
			w.procs[pc.ID] = newProcSys(w, pc)
			workers := pc.Workers
			if workers == 0 {
				workers = 1
			}
			_, err := st.proc.Create(ctx, pc.ID, "sim-proc", parent, processor.Config{Settings: map[string]string{"rev": "0"}, Workers: workers}, processor.ProvisionTypeAPI, pc.Cond)
			if err != nil {
				return err
			}
			if err := add(pc.ID); err != nil {
				return err
			}
		}
		return nil
	}
	for _, sc := range cfg.Sources {
		w.srcs[sc.ID] = newSrcSys(w, sc)
		if _, err := st.conn.Create(ctx, sc.ID, connector.TypeSource, "sim-src", pl.ID, connector.Config{Name: sc.ID, Settings: map[string]string{"k": "v"}}, connector.ProvisionTypeAPI); err != nil {
			return err
		}
		if _, err := st.pipe.AddConnector(ctx, pl.ID, sc.ID); err != nil {
			return err
		}
		id := sc.ID
		if err := mkProcs(sc.Procs, processor.Parent{ID: id, Type: processor.ParentTypeConnector}, func(pid string) error {
			_, err := st.conn.AddProcessor(ctx, id, pid)
			return err
		}); err != nil {
			return err
		}
	}
	for _, dc := range cfg.Dests {
		w.dsts[dc.ID] = newDstSys(w, dc, false)
		if _, err := st.conn.Create(ctx, dc.ID, connector.TypeDestination, "sim-dst", pl.ID, connector.Config{Name: dc.ID, Settings: map[string]string{"k": "v"}}, connector.ProvisionTypeAPI); err != nil {
			return err
		}
		if _, err := st.pipe.AddConnector(ctx, pl.ID, dc.ID); err != nil {
			return err
		}
		id := dc.ID
		if err := mkProcs(dc.Procs, processor.Parent{ID: id, Type: processor.ParentTypeConnector}, func(pid string) error {
			_, err := st.conn.AddProcessor(ctx, id, pid)
			return err
		}); err != nil {
			return err
		}
	}
	if err := mkProcs(cfg.PipeProcs, processor.Parent{ID: pl.ID, Type: processor.ParentTypePipeline}, func(pid string) error {
		_, err := st.pipe.AddProcessor(ctx, pl.ID, pid)
		return err
	}); err != nil {
		return err
	}
	return nil
}

// ---------------------------------------------------------------- clients

// trigger predicate for an action.
func (w *World) triggerReady(a Action) bool {
	if a.Op == "reconfigure" || a.Op == "apply" {
		// N carries the revision; the trigger threshold is in the note ("at=<n>")
		if i := strings.Index(a.Note, "at="); i >= 0 {
			fmt.Sscanf(a.Note[i+3:], "%d", &a.N)
		}
	}
	if a.Client != "main" && !w.started {
		return false // other clients begin once main has booted and started the pipeline
	}
	switch a.When {
	case "acked", "emitted", "written":
		// a count that can no longer be reached must not block the client for ever
		if w.or != nil && w.or.quiescent(w) {
			return true
		}
	}
	switch a.When {
	case "", "now":
		return true
	case "acked":
		n := 0
		for _, s := range w.srcs {
			n += s.ackedAll
		}
		return n >= a.N
	case "emitted":
		n := 0
		for _, s := range w.srcs {
			n += s.emitted
		}
		return n >= a.N
	case "written":
		n := 0
		for _, d := range w.dsts {
			if !d.isDLQ {
				n += d.writes
			}
		}
		return n >= a.N
	case "step":
		return w.step >= a.N
	case "time":
		return w.now() >= int64(a.N)
	case "status":
		st, _, ok := w.db.durableStatus(PipelineID)
		return ok && st == a.N
	case "terminal":
		// pipeline durable status is not running/recovering
		st, ok := w.or.effStatus(w)
		return ok && st != 1 && st != 5
	case "restarting":
		// an automatic restart is under way (falls back to "settled" when none ever comes)
		return w.or != nil && (w.or.ctl.restartInProgress || w.or.settled(w))
	case "quiet":
		return w.or != nil && w.or.quiescent(w)
	case "settled":
		return w.or != nil && w.or.settled(w)
	case "ctl-done":
		done := true
		for _, pa := range w.cfg.Plan {
			if pa.Client == "main" || w.or.ctl.clientDone[pa.Client] || strings.HasPrefix(pa.Client, "waiter") {
				continue // (waiters only observe; one whose trigger never comes must not hold up the end)
			}
			// a client whose last action is a wait that is (legitimately) still blocked counts as done
			if _, inFlight := w.or.ctl.inFlight[pa.Client]; inFlight && strings.HasPrefix(w.or.ctl.callNote[pa.Client], "wait") && w.or.ctl.lastAction[pa.Client] {
				continue
			}
			done = false
		}
		return done && w.or.settled(w)
	case "ap-done":
		for _, cl := range []string{"ap1", "ap2", "stopper"} {
			has := false
			for _, pa := range w.cfg.Plan {
				if pa.Client == cl {
					has = true
				}
			}
			if has && !w.or.ctl.clientDone[cl] {
				return false
			}
		}
		return w.or.quiescent(w) || w.or.settled(w)
	case "rc-done":
		for _, cl := range []string{"rc", "rc2", "stopper"} {
			has := false
			for _, pa := range w.cfg.Plan {
				if pa.Client == cl {
					has = true
				}
			}
			if has && !w.or.ctl.clientDone[cl] {
				return false
			}
		}
		return w.or.quiescent(w) || w.or.settled(w)
	case "restarted-quiet":
		// the user client has finished its script (force stop ... start) and the restarted run drained
		return w.or.ctl.clientDone["user"] && (w.or.quiescent(w) || w.or.settled(w))
	}
	return true
}

// runClient executes the actions of one client in order. Each action first parks
// (kind cl.wait) until its trigger holds and the scheduler picks it, then the call
// itself runs in this goroutine, parking at seams like any engine goroutine.
func (w *World) runClient(name string, actions []Action, sim *Sim) {
	simSetNoYield(true) // simulated clients are part of the simulator
	defer func() {
		w.mu.Lock()
		w.clientsRunning--
		w.mu.Unlock()
		if w.or != nil {
			w.or.ctl.clientDone[name] = true
		}
	}()
	for i, a := range actions {
		act := a
		if w.or != nil {
			w.or.ctl.lastAction[name] = i == len(actions)-1
		}
		d := w.park(nil, "cl.wait", fmt.Sprintf("%s.%d.%s", name, i, act.Op), 0, func() bool { return w.triggerReady(act) })
		_ = d
		sim.doAction(name, act)
		if act.Op == "end" {
			return
		}
	}
}

// Sim binds a world to the current engine stack (which changes on crash/restart).
type Sim struct {
	w  *World
	st *Stack
}

var errIncarnationDied = cerrors.New("sim: engine incarnation crashed during the call")

// call runs one control-plane call against the current stack in its own goroutine, so
// that a crash of that incarnation (which freezes the call for ever) does not freeze
// the simulated client with it.
func (s *Sim) call(client, op, arg string, f func(st *Stack) error) error {
	w := s.w
	st := s.st
	w.log(Event{Kind: "CALL", Ent: client, Inc: st.inc, Note: op + " " + arg})
	done := make(chan error, 1)
	go func() { done <- f(st) }()
	select {
	case err := <-done:
		w.log(Event{Kind: "RET", Ent: client, Inc: st.inc, Note: op + " " + arg, OK: err == nil, Err: errText(err)})
		return err
	case <-st.dead:
		w.log(Event{Kind: "RET_LOST", Ent: client, Inc: st.inc, Note: op + " " + arg})
		return errIncarnationDied
	}
}

// settle ends a data-flow run: if the pipeline is still running, stop it gracefully.
func (s *Sim) settle(client string) {
	w := s.w
	ctx := context.Background()
	st, _, ok := w.db.durableStatus(PipelineID)
	if ok && (st == 1 || st == 5) {
		err := s.call(client, "stopwait", PipelineID, func(st *Stack) error { return st.life.StopAndWait(ctx, PipelineID) })
		if err == nil && w.cfg.Healthy {
			w.or.checkDrained(w, "StopAndWait")
		}
	} else {
		_ = s.call(client, "wait", PipelineID, func(st *Stack) error { return st.life.WaitPipeline(PipelineID) })
	}
}

// drain performs a graceful stop in one of the three supported ways and evaluates
// C06's postconditions when it reports success.
func (s *Sim) drain(client, how string) {
	w := s.w
	ctx := context.Background()
	switch how {
	case "stopwait":
		err := s.call(client, "stopwait", PipelineID, func(st *Stack) error { return st.life.StopAndWait(ctx, PipelineID) })
		if err == nil {
			w.or.checkDrained(w, "StopAndWait")
		} else {
			w.or.stopRefused(w, "StopAndWait", err)
		}
	case "stop+wait":
		err := s.call(client, "stop", PipelineID, func(st *Stack) error { return st.life.Stop(ctx, PipelineID, false) })
		if err != nil {
			w.or.stopRefused(w, "Stop", err)
			return
		}
		err = s.call(client, "wait", PipelineID, func(st *Stack) error { return st.life.WaitPipeline(PipelineID) })
		if err != nil {
			w.or.stopRefused(w, "WaitPipeline", err)
			return
		}
		_ = s.call(client, "perswait", "", func(st *Stack) error { st.conn.WaitPersisted(); return nil })
		w.or.checkDrained(w, "Stop+WaitPipeline+WaitPersisted")
	case "stopall":
		_ = s.call(client, "stopall", "", func(st *Stack) error { return st.stopAll(ctx) })
		err := s.call(client, "waitall", "", func(st *Stack) error { return st.life.Wait(30 * time.Second) })
		if err != nil {
			w.or.stopRefused(w, "StopAll+Wait", err)
			return
		}
		_ = s.call(client, "perswait", "", func(st *Stack) error { st.pers.Wait(); return nil })
		w.or.checkDrained(w, "StopAll+Wait+Persister.Wait")
	}
}

func (s *Sim) doAction(client string, a Action) {
	w := s.w
	ctx := context.Background()
	switch a.Op {
	case "start":
		_ = s.call(client, "start", PipelineID, func(st *Stack) error { return st.life.Start(ctx, PipelineID) })
		if client == "main" {
			w.started = true
		}
	case "stop":
		_ = s.call(client, "stop", PipelineID, func(st *Stack) error { return st.life.Stop(ctx, PipelineID, false) })
	case "forcestop":
		_ = s.call(client, "forcestop", PipelineID, func(st *Stack) error { return st.life.Stop(ctx, PipelineID, true) })
	case "stopwait":
		_ = s.call(client, "stopwait", PipelineID, func(st *Stack) error { return st.life.StopAndWait(ctx, PipelineID) })
	case "wait":
		_ = s.call(client, "wait", PipelineID, func(st *Stack) error { return st.life.WaitPipeline(PipelineID) })
	case "stopall":
		_ = s.call(client, "stopall", "", func(st *Stack) error { return st.stopAll(ctx) })
	case "waitall":
		_ = s.call(client, "waitall", "", func(st *Stack) error { return st.life.Wait(30 * time.Second) })
	case "perswait":
		_ = s.call(client, "perswait", "", func(st *Stack) error { st.pers.Wait(); return nil })
	case "reconfigure":
		s.reconfigure(client, a)
	case "crash":
		s.crashRestart(client, a)
	case "setup":
		tmp := s.st
		if err := tmp.setupScenario(ctx); err != nil {
			w.note("setup failed: " + err.Error())
			w.violate("HARNESS", "setup-failed", err.Error())
			return
		}
		s.st = w.newStack()
		if err := s.call(client, "boot", "", func(st *Stack) error { return st.boot(ctx) }); err != nil {
			w.violate("HARNESS", "boot-failed", err.Error())
		}
	case "settle":
		s.settle(client)
	case "settle-control":
		s.settleControl(client)
	case "check-force":
		// (waits itself, so that the check keeps its meaning when the minimiser drops the wait before it)
		_ = s.call(client, "wait", PipelineID, func(st *Stack) error { return st.life.WaitPipeline(PipelineID) })
		w.or.checkForceStopped(w)
	case "settle-reconf":
		s.settleReconf(client)
	case "api-experiment":
		s.apiExperiment()
	case "import-experiment":
		s.importExperiment()
	case "drain:stopwait", "drain:stop+wait", "drain:stopall":
		s.drain(client, strings.TrimPrefix(a.Op, "drain:"))
	case "end":
		w.mu.Lock()
		w.finished = true
		w.mu.Unlock()
	default:
		if h, ok := extraOps[a.Op]; ok {
			h(s, client, a)
			return
		}
		w.note("unknown op " + a.Op)
	}
}

var extraOps = map[string]func(s *Sim, client string, a Action){}

// crashRestart freezes the running incarnation and boots a fresh stack from the durable map.
func (s *Sim) crashRestart(client string, a Action) {
	w := s.w
	w.log(Event{Kind: "CRASH", Inc: s.st.inc, Note: a.Note})
	w.or.onCrash(w)
	w.crash()
	close(s.st.dead)
	w.probe("crash")
	st := w.newStack()
	s.st = st
	_ = s.call(client, "boot", "", func(st *Stack) error { return st.boot(context.Background()) })
}

func (s *Sim) reconfigure(client string, a Action) {
	w := s.w
	base := context.Background()
	procID := a.Arg
	rev := fmt.Sprintf("%d", a.N)
	settings := map[string]string{"rev": rev}
	openFail := strings.Contains(a.Note, "openfail")
	if openFail {
		settings["open"] = "fail"
	}
	ctx := base
	cancelled := strings.Contains(a.Note, "cancel")
	if cancelled {
		// the request context ends after a short (simulated) while, possibly while the swap is staged
		var cancel context.CancelFunc
		ctx, cancel = context.WithTimeout(base, time.Duration(1+a.N%7)*time.Millisecond)
		defer cancel()
	}
	var applied bool
	// requests for one processor that overlap share the stored configuration (the real server
	// serializes them): what such a request opens is then not necessarily its own settings
	rcs := w.or.rc
	rcs.inflight[procID]++
	overlapped := rcs.inflight[procID] > 1
	if overlapped {
		rcs.tainted[procID] = true
	}
	defer func() {
		rcs.inflight[procID]--
		if rcs.inflight[procID] == 0 {
			delete(rcs.tainted, procID)
		}
	}()
	tdGen := 0
	if ps := w.procs[procID]; ps != nil && strings.Contains(a.Note, "tdfail") && !overlapped {
		if tdGen = ps.liveGen(); tdGen > 0 {
			ps.tdFail[tdGen] = true
		}
	}
	gensBefore := 0
	if ps := w.procs[procID]; ps != nil {
		gensBefore = ps.gens
	}
	err := s.call(client, "reconfigure", procID+" rev="+rev+" "+a.Note, func(st *Stack) error {
		inst, err := st.proc.Get(base, procID)
		if err != nil {
			return err
		}
		old := inst.Config
		cfg := inst.Config
		cfg.Settings = settings
		if _, err := st.proc.UpdateWhileRunning(base, procID, inst.Plugin, cfg); err != nil {
			return err
		}
		err = st.life.ReconfigureProcessor(ctx, PipelineID, procID)
		if err != nil {
			// mirror provisioning's rollbackInPlace: restore the stored config
			_, _ = st.proc.UpdateWhileRunning(base, procID, inst.Plugin, old)
		} else {
			applied = true
		}
		return err
	})
	if overlapped || rcs.tainted[procID] {
		openFail = false
	}
	if ps := w.procs[procID]; ps != nil {
		if tdGen > 0 && ps.torndown[tdGen] == 0 {
			delete(ps.tdFail, tdGen) // not replaced after all: it goes on and is torn down normally later
		}
		if err != nil && err != errIncarnationDied && !overlapped && !rcs.tainted[procID] {
			// the caller was told the request failed: nothing this request built may be in use
			for g := gensBefore + 1; g <= ps.gens; g++ {
				rcs.refusedGens[fmt.Sprintf("%s|%d", procID, g)] = firstLine(err.Error())
			}
		}
	}
	w.or.onReconfigureResult(w, procID, rev, openFail, cancelled, applied, err)
	if applied {
		// the instance must still count as running: an ordinary update is refused while the pipeline runs
		inst, gerr := s.st.proc.Get(base, procID)
		// (only while the processor this request switched in is still open: a pipeline that is
		// stopping has torn it down already and an ordinary update is then legitimate)
		ps := w.procs[procID]
		stillOpen := ps != nil && ps.opened[ps.gens] > ps.torndown[ps.gens]
		if gerr == nil && stillOpen {
			if _, uerr := s.st.proc.Update(base, procID, inst.Plugin, inst.Config); uerr == nil {
				if st, _, ok := w.db.durableStatus(PipelineID); ok && st == 1 && w.memStatus() == 1 {
					w.violate("C13", "running-guard-lost", fmt.Sprintf("after a live reconfigure of %s the processor no longer counts as running: an ordinary update was accepted while the pipeline runs", procID))
				}
			}
		}
	}
}

// settleReconf: stop the pipeline gracefully and check the generation bookkeeping.
func (s *Sim) settleReconf(client string) {
	w := s.w
	ctx := context.Background()
	if st, _, ok := w.db.durableStatus(PipelineID); ok && st == 1 {
		if err := s.call(client, "stopwait", PipelineID, func(st *Stack) error { return st.life.StopAndWait(ctx, PipelineID) }); err != nil {
			_ = s.call(client, "wait", PipelineID, func(st *Stack) error { return st.life.WaitPipeline(PipelineID) })
		}
	}
	w.or.checkGenerations(w)
}

// settleControl ends a control-plane run: drain a still-running pipeline, then check that the
// pipeline can be started again (its connectors and processors were released) and stop it.
func (s *Sim) settleControl(client string) {
	w := s.w
	ctx := context.Background()
	st, ok := w.or.effStatus(w)
	if ok && st == 1 {
		if err := s.call(client, "stopwait", PipelineID, func(st *Stack) error { return st.life.StopAndWait(ctx, PipelineID) }); err != nil {
			// e.g. another stop is already draining the pipeline: wait for that one to finish
			_ = s.call(client, "wait", PipelineID, func(st *Stack) error { return st.life.WaitPipeline(PipelineID) })
			// C11 wedge: the pipeline is reported running (memory and store agree), yet a stop
			// is refused because there is no run, no plugin session is open, nothing is in
			// flight - and a start is refused because the pipeline "is running"
			if ds, _, dok := w.db.durableStatus(PipelineID); dok && ds == 1 && w.memStatus() == 1 && strings.Contains(err.Error(), "pipeline not running") && !w.or.ctl.restartInProgress &&
				len(w.or.openSessions(w)) == 0 && !w.or.statusWriteFailedEver && w.worldParked() == 0 && len(w.or.ctl.startInFlight()) == 0 {
				serr := s.call(client, "start", PipelineID+" (wedge probe)", func(st *Stack) error { return st.life.Start(ctx, PipelineID) })
				if serr != nil && strings.Contains(serr.Error(), "is running") {
					w.violate("C11", "wedged-running-without-run", fmt.Sprintf("the pipeline is reported running, but it can be neither stopped (%s) nor started (%s): no run exists and none can be created", firstLine(err.Error()), firstLine(serr.Error())))
				} else if serr == nil {
					_ = s.call(client, "stopwait", PipelineID, func(st *Stack) error { return st.life.StopAndWait(ctx, PipelineID) })
				}
			}
		}
	}
	w.or.scenarioChecks(w)
	if w.or.ctl.shutdown || w.hasOwnViolation() || strings.HasPrefix(w.cfg.Scenario, "fatal-") {
		return // the server is shutting down / the pipeline is broken for good: nothing is started any more
	}
	st, _ = w.or.effStatus(w)
	if st == 1 || st == 5 {
		return
	}
	// restartability (C11): once a run has ended its connectors and processors are released
	err := s.call(client, "start", PipelineID+" (restartability)", func(st *Stack) error { return st.life.Start(ctx, PipelineID) })
	if err != nil {
		w.or.checkRestartError(w, err)
		return
	}
	_ = s.call(client, "stopwait", PipelineID, func(st *Stack) error { return st.life.StopAndWait(ctx, PipelineID) })
}
