package harness

import (
	"context"
	"crypto/sha256"
	"encoding/hex"
	"fmt"
	"math/rand"
	"runtime"
	"runtime/debug"
	"sort"
	"strings"
	"testing"
	"testing/synctest"
	"time"
	_ "unsafe"

	"github.com/google/uuid"
)

//go:linkname simSetPinRand runtime.simSetPinRand
func simSetPinRand(v uint64)

//go:linkname simGetPinCount runtime.simGetPinCount
func simGetPinCount() uint64

type RunResult struct {
	Seed       int64          `json:"seed"`
	Violations []Violation    `json:"violations,omitempty"`
	Events     int            `json:"events"`
	Steps      int            `json:"steps"`
	Served     int            `json:"served"`
	SimMs      int64          `json:"sim_ms"`
	Hash       string         `json:"hash"`  // hash of the full event log (determinism)
	Shape      string         `json:"shape"` // hash of the kind/entity sequence (interleaving measure)
	Faults     map[string]int `json:"faults,omitempty"`
	Probes     map[string]int `json:"probes,omitempty"`
	Diverged   string         `json:"diverged,omitempty"`
	Leaked     bool           `json:"leaked,omitempty"`
	Notes      []string       `json:"notes,omitempty"`
	Finished   bool           `json:"finished"`
	NonTrivial bool           `json:"nontrivial"`
	Panic      string         `json:"panic,omitempty"`
	Parked     []string       `json:"parked,omitempty"`
	Stacks     string         `json:"-"`

	choices []Choice
	events  []Event
	draws   []uint64
}

var DumpStacks bool

type prngReader struct{ r *rand.Rand }

func (p prngReader) Read(b []byte) (int, error) {
	for i := range b {
		b[i] = byte(p.r.Intn(256))
	}
	return len(b), nil
}

// RunOne executes one simulated run inside a fresh synctest bubble.
func RunOne(t *testing.T, cfg *Config, follow []Choice, strict bool) *RunResult {
	res := &RunResult{Seed: cfg.Seed}
	var w *World
	func() {
		defer func() {
			if r := recover(); r != nil {
				s := fmt.Sprint(r)
				if strings.Contains(s, "blocked goroutines remain") || strings.Contains(s, "deadlock") {
					res.Leaked = true
					return
				}
				panic(r)
			}
		}()
		synctest.Test(t, func(t *testing.T) {
			// pin every hidden source of nondeterminism for this run
			simSetPinRand(uint64(cfg.Seed)*0x9e3779b97f4a7c15 | 1)
			defer simSetPinRand(0)
			simSetNoYield(true) // the scheduler goroutine itself never parks at a gate
			simSetYieldFn(yieldHook)
			defer simSetYieldFn(nil)
			rand.Seed(cfg.Seed)
			uuid.SetRand(prngReader{rand.New(rand.NewSource(cfg.Seed))})
			w = NewWorld(cfg, follow, strict)
			w.gates = newGateState(cfg.Seed)
			curWorld = w
			w.start = time.Now()
			w.db = newSimStore(w)
			w.or = newOracles()
			sim := &Sim{w: w}
			sim.st = w.newStack()
			w.memStatus = func() int {
				pl, err := sim.st.pipe.Get(context.Background(), PipelineID)
				if err != nil {
					return 0
				}
				return int(pl.GetStatus())
			}
			// group plan actions by client, preserving order
			var names []string
			byClient := map[string][]Action{}
			for _, a := range cfg.Plan {
				if _, ok := byClient[a.Client]; !ok {
					names = append(names, a.Client)
				}
				byClient[a.Client] = append(byClient[a.Client], a)
			}
			for _, n := range names {
				w.clientsRunning++
				go w.runClient(n, byClient[n], sim)
			}
			w.Run()
			if DumpStacks && !w.finished {
				buf := make([]byte, 1<<22)
				n := runtime.Stack(buf, true)
				res.Stacks = string(buf[:n])
			}
			w.finalChecks(sim)
			w.endRun()
		})
	}()
	if w == nil {
		return res
	}
	res.Violations = w.violations
	res.Events = len(w.events)
	res.Steps = w.step
	res.Served = w.stepsServed
	res.SimMs = w.now0()
	res.Faults = w.faultFired
	res.Probes = w.probes
	res.Diverged = w.diverged
	res.Notes = w.notes
	res.Finished = w.finished
	res.choices = w.choices
	for k, p := range w.parked {
		en := p.enabled == nil || p.enabled()
		res.Parked = append(res.Parked, fmt.Sprintf("%s enabled=%v stalled=%v", k, en, p.stalled))
	}
	sort.Strings(res.Parked)
	res.draws = w.drawTrace
	res.events = w.events
	h := sha256.New()
	for _, e := range w.events {
		h.Write([]byte(e.String()))
		h.Write([]byte{'\n'})
	}
	res.Hash = hex.EncodeToString(h.Sum(nil))[:16]
	sh := sha256.Sum256(w.kindSeq)
	res.Shape = hex.EncodeToString(sh[:])[:16]
	nf := 0
	for _, n := range w.faultFired {
		nf += n
	}
	res.NonTrivial = nf > 0 || len(w.choices) > 0 && w.reordered()
	return res
}

func (w *World) now0() int64 {
	if len(w.events) == 0 {
		return 0
	}
	return w.events[len(w.events)-1].T
}

// reordered: the schedule deviated from "always the first enabled item" at least once,
// approximated by the policy (anything but a deviation-free "first" policy).
func (w *World) reordered() bool {
	if w.cfg.Policy == "first" {
		return w.deviations > 0
	}
	return true
}

func initProcess() {
	runtime.GOMAXPROCS(1)
	debug.SetGCPercent(-1)
	runtime.MemProfileRate = 0
}

func gcBetweenRuns() {
	runtime.GC()
}

// finalChecks runs end-of-run oracles (outside the scheduler loop, same bubble).
func (w *World) finalChecks(sim *Sim) {
	if w.diverged != "" || w.hasOwnViolation() {
		return
	}
	w.stopOnViol = false
	w.or.finalChecks(w)
	_ = context.Background
}
