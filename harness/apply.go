package harness

// Family "apply" (C16): Plan + ApplyPlanLive against a pipeline with records flowing.
//
// Real code: provisioning.Service (Plan, ApplyPlanLive, applyInPlace, rollbackInPlace,
// transactionalImport, Export, the per-pipeline lock) on top of the real lifecycle
// service, connector/processor/pipeline services and the simulated store and plugins.
// The lifecycle service handed to provisioning is wrapped so that every call
// provisioning makes (StopAndWait, Start, ReconfigureProcessor) is recorded as an
// effect of the apply call that made it; store writes are attributed through the
// request context.

import (
	"context"
	"crypto/sha256"
	"encoding/hex"
	"encoding/json"
	"fmt"
	"math/rand/v2"
	"sort"
	"strings"
	"time"

	"github.com/conduitio/conduit/pkg/provisioning"
	pconfig "github.com/conduitio/conduit/pkg/provisioning/config"
)

const condNever = `{{ eq (index .Metadata "sim.never") "1" }}`

const inertProcID = "ap-x1"

type clientKey struct{}

func clientOf(ctx context.Context) string {
	if ctx == nil {
		return ""
	}
	c, _ := ctx.Value(clientKey{}).(string)
	return c
}

// ---------------------------------------------------------------- generator

func genApply(c *Config, r *rand.Rand) {
	simpleTopology(c, r, 2, 2)
	c.Scenario = "apply"
	c.MaxSimTime = 3 * time.Hour
	c.PipeProcs = []ProcCfg{{ID: "pl-p1", Workers: 1, ModifyPct: pick(r, 0, 50, 100), FilterPct: pick(r, 0, 0, 20)}}
	if r.IntN(2) == 0 {
		c.PipeProcs = append(c.PipeProcs, ProcCfg{ID: "pl-p2", Workers: pick(r, 1, 1, 2), ModifyPct: 50})
	}
	if r.IntN(2) == 0 {
		c.Sources[0].Procs = []ProcCfg{{ID: c.Sources[0].ID + "-p1", Workers: 1, ModifyPct: 50}}
	}
	if r.IntN(3) == 0 {
		c.Dests[0].Procs = []ProcCfg{{ID: c.Dests[0].ID + "-p1", Workers: 1, ModifyPct: 100}}
	}
	for i := range c.Sources {
		c.Sources[i].NRec += 15
	}
	c.MaxFaults = pick(r, 0, 0, 0, 1, 2)
	if c.MaxFaults > 0 {
		switch r.IntN(4) {
		case 0:
			c.Faults["db.err"] = pick(r, 20, 100)
		case 1:
			c.Faults["plugin.err"] = pick(r, 20, 100)
		case 2:
			c.Faults["dst.write.err"] = pick(r, 30, 100)
		default:
			c.Faults["db.err"] = 30
			c.Faults["plugin.err"] = 30
		}
	}
	c.Recovery.MaxRetries = int64(pick(r, 0, 1, 3))
	total := totalRecords(c)
	ps := allProcs(c)
	conns := []string{}
	for _, s := range c.Sources {
		conns = append(conns, s.ID)
	}
	for _, d := range c.Dests {
		conns = append(conns, d.ID)
	}
	plan := []Action{{Client: "main", Op: "setup"}, {Client: "main", Op: "start"}}
	rev := 0
	mk := func(client string) Action {
		rev++
		kind := pick(r, "proc-rev", "proc-rev", "proc-rev", "procs-rev2", "procs-rev2", "conn-set", "conn-set", "name", "dlq-set", "add-proc", "del-proc", "noop")
		if kind == "procs-rev2" && len(ps) < 2 {
			kind = "proc-rev"
		}
		a := Action{Client: client, Op: "apply", Arg: kind, N: rev, When: pick(r, "acked", "emitted", "written", "step", "now")}
		note := fmt.Sprintf("at=%d", r.IntN(total+2))
		switch kind {
		case "proc-rev":
			note += " target=" + ps[r.IntN(len(ps))].ID
			if r.IntN(6) == 0 {
				note += " openfail"
			}
		case "procs-rev2":
			// two processors in one apply; the new settings of one of them may fail to open
			i := r.IntN(len(ps))
			j := (i + 1 + r.IntN(len(ps)-1)) % len(ps)
			note += " target=" + ps[i].ID + " target2=" + ps[j].ID
			switch r.IntN(3) {
			case 0:
				note += " openfail"
			case 1:
				note += " openfail2"
			}
		case "conn-set":
			note += " target=" + conns[r.IntN(len(conns))]
		}
		if r.IntN(5) == 0 {
			note += " deny" // the operator did not authorise live applies
		}
		if r.IntN(5) == 0 {
			note += " stale" // another change is applied between plan and apply
		}
		a.Note = note
		return a
	}
	for i, n := 0, 1+r.IntN(4); i < n; i++ {
		plan = append(plan, mk("ap1"))
	}
	if r.IntN(3) == 0 {
		for i, n := 0, 1+r.IntN(2); i < n; i++ {
			plan = append(plan, mk("ap2"))
		}
	}
	if r.IntN(5) == 0 {
		// an apply that meets a pipeline a user has just stopped / is stopping
		plan = append(plan, Action{Client: "stopper", Op: "stop", When: pick(r, "acked", "emitted"), N: r.IntN(total + 1)})
	}
	plan = append(plan,
		Action{Client: "main", Op: "settle-apply", When: "ap-done"},
		Action{Client: "main", Op: "end"})
	c.Plan = plan
}

// ---------------------------------------------------------------- recorded lifecycle

type recLife struct {
	st *Stack
}

func (l *recLife) rec(ctx context.Context, what string, err error) {
	w := l.st.w
	if c := clientOf(ctx); c != "" && w.or != nil {
		w.or.ap.effect(c, what, err)
	}
}

// nested runs a lifecycle call that provisioning makes on behalf of an apply as a control call
// of its own (client "<client>>"), so that the control-plane oracles see a start or stop issued
// through provisioning exactly like one issued by a user.
func (l *recLife) nested(ctx context.Context, op string, f func() error) error {
	w := l.st.w
	c := clientOf(ctx)
	if c == "" {
		return f()
	}
	if w.or != nil {
		w.or.beforeFirstEffect(w, c)
	}
	ent := c + ">"
	w.log(Event{Kind: "CALL", Ent: ent, Inc: l.st.inc, Note: op + " " + PipelineID})
	err := f()
	w.log(Event{Kind: "RET", Ent: ent, Inc: l.st.inc, Note: op + " " + PipelineID, OK: err == nil, Err: errText(err)})
	return err
}

func (l *recLife) Start(ctx context.Context, id string) error {
	err := l.nested(ctx, "start", func() error { return l.st.life.Start(ctx, id) })
	l.rec(ctx, "start", err)
	return err
}

func (l *recLife) Stop(ctx context.Context, id string, force bool) error {
	err := l.nested(ctx, "stop", func() error { return l.st.life.Stop(ctx, id, force) })
	l.rec(ctx, "stop", err)
	return err
}

func (l *recLife) StopAndWait(ctx context.Context, id string) error {
	err := l.nested(ctx, "stopwait", func() error { return l.st.life.StopAndWait(ctx, id) })
	l.rec(ctx, "stopwait", err)
	if w := l.st.w; err == nil && clientOf(ctx) != "" && w.or != nil {
		// C16: the stored configuration of a running pipeline is touched only after it has
		// fully drained and its positions are durable - evaluated the moment the drain that
		// the apply relies on reports success, before the import writes anything
		if len(w.faultFired) == 0 {
			w.or.drainAs = "C16"
			w.or.checkDrained(w, "ApplyPlanLive: StopAndWait")
			w.or.drainAs = ""
		} else if open := w.or.openSessions(w); len(open) > 0 {
			// (a run that met faults may end without the final plugin acks - its stream is
			// cancelled with it; what the apply needs is that nothing is open any more)
			w.violate("C16", "config-changed-while-running", fmt.Sprintf("StopAndWait reported success to ApplyPlanLive while plugin sessions %v were still open", open))
		}
	}
	return err
}

func (l *recLife) ReconfigureProcessor(ctx context.Context, pipelineID, processorID string) error {
	if c := clientOf(ctx); c != "" && l.st.w.or != nil {
		l.st.w.or.beforeFirstEffect(l.st.w, c)
	}
	err := l.st.life.ReconfigureProcessor(ctx, pipelineID, processorID)
	l.rec(ctx, "reconfigure:"+processorID, err)
	return err
}

func (st *Stack) provisioner() *provisioning.Service {
	if st.prov == nil {
		st.prov = provisioning.NewService(st.db, st.log, st.pipe, st.conn, st.proc, st.plug, &recLife{st: st}, "")
	}
	return st.prov
}

// ---------------------------------------------------------------- oracle state

type apEffect struct {
	what string
	ok   bool
	seq  int
}

type apCall struct {
	kind           string
	allow          bool
	restartClass   bool
	runningAt      bool // reported running (as the engine defines it) when the call was issued
	stoppedAtFirstEffect bool // ... and no longer so when the call began to take effect (a stop got in between)
	procFault      string   // the new configuration of a targeted processor cannot be built or opened ("" = it can)
	targets        []string // processors whose settings the change touches (live-eligible kinds)
	effects        []apEffect
	cfgWrites      int
	overlapped     bool // another plan/apply call was in flight at some time during this call
	statusMoved    bool // the pipeline status changed during the call
	digestAtCall   string
	planNowDiffers bool
	dbFaults       int // store faults injected while the call ran
	st             *Stack
	desired        pconfig.Pipeline
	hash           string
	firstChecked   bool
}

type apState struct {
	inFlight     map[string]*apCall // client -> running apply call
	planning     map[string]bool    // client -> plan call in flight
	liveRev      map[string]string  // processor -> settings revision the running pipeline must be using (nil = unknown)
	memoryBroken bool               // a roll-back met a store fault of its own
	statusEvents int
}

func newApState() *apState {
	return &apState{inFlight: map[string]*apCall{}, planning: map[string]bool{}}
}

func (a *apState) effect(client, what string, err error) {
	if c := a.inFlight[client]; c != nil {
		c.effects = append(c.effects, apEffect{what: what, ok: err == nil})
	}
}

func (a *apState) busyOthers(client string) bool {
	for c := range a.inFlight {
		if c != client {
			return true
		}
	}
	for c := range a.planning {
		if c != client {
			return true
		}
	}
	return false
}

func (a *apState) markOverlap() {
	if len(a.inFlight)+len(a.planning) > 1 {
		for _, c := range a.inFlight {
			c.overlapped = true
		}
	}
}

// cfgDigest: digest of the stored configuration (pipeline, connector and processor documents
// without state, status, timestamps and last-active config).
func (s *SimStore) cfgDigest() string {
	keys := make([]string, 0, len(s.durable))
	for k := range s.durable {
		if strings.HasPrefix(k, "pipeline:instance:") || strings.HasPrefix(k, "connector:instance:") || strings.HasPrefix(k, "processor:instance:") {
			keys = append(keys, k)
		}
	}
	sort.Strings(keys)
	h := sha256.New()
	for _, k := range keys {
		var doc map[string]any
		if err := json.Unmarshal(s.durable[k], &doc); err != nil {
			h.Write(s.durable[k])
			continue
		}
		for _, drop := range []string{"State", "Status", "Error", "CreatedAt", "UpdatedAt", "LastActiveConfig"} {
			delete(doc, drop)
		}
		b, _ := json.Marshal(normTimes(doc))
		h.Write([]byte(k))
		h.Write(b)
	}
	return hex.EncodeToString(h.Sum(nil))[:16]
}

// beforeFirstEffect runs right before the first thing an apply call does to the world (a
// lifecycle call or the opening of its store transaction), i.e. under the engine's own
// per-pipeline lock and before the call has changed anything: a plan computed at this very
// moment must be the plan that was presented, whatever other applies ran in between.
func (o *Oracles) beforeFirstEffect(w *World, client string) {
	c := o.ap.inFlight[client]
	if c == nil || c.firstChecked || c.st == nil {
		return
	}
	c.firstChecked = true
	c.stoppedAtFirstEffect = !engineSaysRunning(w.memStatus())
	now, err := c.st.provisioner().Plan(context.Background(), c.desired)
	if err != nil {
		return
	}
	if now.Hash != c.hash {
		w.violate("C16", "stale-plan-applied", fmt.Sprintf("apply %q starts to take effect although the plan for its desired configuration is no longer the one that was presented (the state changed since it was planned): presented %.12s, current %.12s", c.kind, c.hash, now.Hash))
	}
}

// onStoreWrite is called by the store for every successful durable change made on behalf
// of a client call (ctx attribution); before says what the configuration digest was.
func (o *Oracles) onAttributedWrite(w *World, client, before string, statusBefore int) {
	c := o.ap.inFlight[client]
	if c == nil {
		return
	}
	c.effects = append(c.effects, apEffect{what: "store", ok: true})
	// C11: an import never decides the status of a pipeline. If its commit changes the stored
	// status, it has overwritten a status the lifecycle service stored after the import had
	// serialized the pipeline document (lost update): the store now disagrees with how the
	// last run ended.
	if st, _, ok := w.db.durableStatus(PipelineID); ok && statusBefore != 0 && st != statusBefore {
		if ms := w.memStatus(); ms != 0 && ms != st {
			w.violate("C11", "import-overwrote-newer-status", fmt.Sprintf("the commit of apply %q replaced the stored status %s by the older %s while the pipeline is %s: the stored status no longer agrees with how the last run ended", c.kind, statusName(statusBefore), statusName(st), statusName(ms)))
			return
		}
	}
	after := w.db.cfgDigest()
	if after == before {
		return
	}
	c.cfgWrites++
	// C16: a running pipeline is touched only after it has fully drained and its positions
	// are durable (processor-only and name changes excepted: they are applied in place)
	if c.cfgWrites == 1 && c.restartClass {
		if open := o.openSessions(w); len(open) > 0 {
			w.violate("C16", "config-changed-while-running", fmt.Sprintf("apply %q changed the stored configuration while plugin sessions %v of the pipeline were still open (not drained)", c.kind, open))
			return
		}
	}
}

// ---------------------------------------------------------------- the client action

func cloneCfg(c pconfig.Pipeline) pconfig.Pipeline {
	b, _ := json.Marshal(c)
	var out pconfig.Pipeline
	_ = json.Unmarshal(b, &out)
	return out
}

func noteVal(note, key string) string {
	for _, f := range strings.Fields(note) {
		if strings.HasPrefix(f, key+"=") {
			return f[len(key)+1:]
		}
	}
	return ""
}

// mutateCfg applies one change kind to a configuration; restart says whether the change
// needs the drain-and-restart path on a running pipeline.
func mutateCfg(base pconfig.Pipeline, kind, target string, rev int, openFail bool) (out pconfig.Pipeline, restart bool) {
	if kind == "procs-rev2" {
		// target is "a,b[,fail2]": both processors get new settings in one plan
		parts := strings.Split(target, ",")
		out, _ = mutateCfg(base, "proc-rev", parts[0], rev, openFail)
		out, _ = mutateCfg(out, "proc-rev", parts[1], rev, len(parts) > 2)
		return out, false
	}
	out = cloneCfg(base)
	revs := fmt.Sprintf("%d", rev)
	setProc := func(ps []pconfig.Processor) bool {
		for i := range ps {
			if ps[i].ID == target {
				if ps[i].Settings == nil {
					ps[i].Settings = map[string]string{}
				}
				ps[i].Settings["rev"] = revs
				delete(ps[i].Settings, "open")
				if openFail {
					ps[i].Settings["open"] = "fail"
				}
				return true
			}
		}
		return false
	}
	switch kind {
	case "proc-rev":
		if !setProc(out.Processors) {
			for i := range out.Connectors {
				if setProc(out.Connectors[i].Processors) {
					break
				}
			}
		}
		return out, false
	case "conn-set":
		for i := range out.Connectors {
			if out.Connectors[i].ID == target {
				if out.Connectors[i].Settings == nil {
					out.Connectors[i].Settings = map[string]string{}
				}
				out.Connectors[i].Settings["k"] = "v" + revs
			}
		}
		return out, true
	case "name":
		out.Name = "sim-pipeline-" + revs
		return out, false
	case "dlq-set":
		if out.DLQ.Settings == nil {
			out.DLQ.Settings = map[string]string{}
		}
		out.DLQ.Settings["x"] = revs
		return out, true
	case "add-proc":
		for _, p := range out.Processors {
			if p.ID == inertProcID {
				return out, false // already there: nothing changes
			}
		}
		out.Processors = append(out.Processors, pconfig.Processor{ID: inertProcID, Plugin: "sim-proc", Condition: condNever, Settings: map[string]string{"rev": revs}, Workers: 1})
		return out, true
	case "del-proc":
		for i, p := range out.Processors {
			if p.ID == inertProcID {
				out.Processors = append(out.Processors[:i:i], out.Processors[i+1:]...)
				return out, true
			}
		}
		return out, false
	}
	return out, false
}

func engineSaysRunning(ms int) bool { return ms == 1 || ms == 5 || ms == 4 }

func (s *Sim) applyOnce(client string, kind, target string, rev int, allow, openFail, staleTwin bool) {
	w := s.w
	o := w.or
	ctx := context.WithValue(context.Background(), clientKey{}, client)
	st := s.st
	prov := st.provisioner()
	base, err := prov.Export(context.Background(), PipelineID)
	if err != nil {
		w.note("apply: export failed: " + err.Error())
		return
	}
	desired, restart := mutateCfg(base, kind, target, rev, openFail)
	note := fmt.Sprintf("%s rev=%d target=%s allow=%v", kind, rev, target, allow)
	// ---- plan
	var plan provisioning.Diff
	planDigestBefore := w.db.cfgDigest()
	o.ap.planning[client] = true
	o.ap.markOverlap()
	planOverlap := o.ap.busyOthers(client)
	err = s.call(client, "plan", note, func(st *Stack) error {
		var e error
		plan, e = st.provisioner().Plan(ctx, desired)
		return e
	})
	delete(o.ap.planning, client)
	if o.ap.busyOthers(client) {
		planOverlap = true
	}
	planDigest := w.db.cfgDigest()
	planStable := planDigest == planDigestBefore && !planOverlap
	if err != nil {
		return
	}
	if staleTwin {
		// another change is planned and applied (authorised) before this plan is presented
		twin := "name"
		if kind == "name" || kind == "noop" {
			twin = "dlq-set" // (a second rename yields the very same plan: same changes, same desired state)
		}
		s.applyOnce(client, twin, "", rev+1000, true, false, false)
	}
	// ---- apply
	call := &apCall{kind: kind, allow: allow, restartClass: restart, runningAt: engineSaysRunning(w.memStatus()), digestAtCall: w.db.cfgDigest(), st: st, desired: desired, hash: plan.Hash}
	// what a plan computed right now looks like: if it differs from the presented one, the
	// presented plan no longer matches the current state (a state change that yields the very
	// same plan - same changes, same desired state - does not make it stale)
	if chk, e := prov.Plan(context.Background(), desired); e == nil {
		call.planNowDiffers = chk.Hash != plan.Hash
	}
	oldCanon := canon(exportable(base))
	if staleTwin {
		if cur, e := prov.Export(context.Background(), PipelineID); e == nil {
			oldCanon = canon(exportable(cur))
		}
	}
	if kind == "proc-rev" || kind == "procs-rev2" {
		parts := strings.Split(target, ",")
		call.targets = parts
		if kind == "procs-rev2" && len(parts) > 2 {
			call.targets = parts[:2]
		}
		if openFail || (kind == "procs-rev2" && len(parts) > 2) {
			call.procFault = "its Open fails"
		}
	}
	o.ap.inFlight[client] = call
	o.ap.liveRev = nil
	o.ap.markOverlap()
	if o.ap.busyOthers(client) {
		call.overlapped = true
	}
	statusSeq := o.ap.statusEvents
	dbFaultsBefore := w.faultFired["db.err"]
	var res provisioning.Diff
	err = s.call(client, "apply", note, func(st *Stack) error {
		var e error
		res, e = st.provisioner().ApplyPlanLive(ctx, desired, plan.Hash, allow)
		return e
	})
	delete(o.ap.inFlight, client)
	call.statusMoved = o.ap.statusEvents != statusSeq
	call.dbFaults = w.faultFired["db.err"] - dbFaultsBefore
	if err == errIncarnationDied {
		return
	}
	o.onApplyResult(w, st, call, planStable, planDigest, canon(exportable(desired)), oldCanon, plan, res, err)
}

func (s *Sim) apply(client string, a Action) {
	target := noteVal(a.Note, "target")
	if a.Arg == "procs-rev2" {
		target += "," + noteVal(a.Note, "target2")
		if strings.Contains(a.Note, "openfail2") {
			target += ",fail2"
		}
	}
	allow := !strings.Contains(a.Note, "deny")
	s.applyOnce(client, a.Arg, target, a.N, allow, strings.Contains(a.Note+" ", "openfail "), strings.Contains(a.Note, "stale"))
}

// onApplyResult: C16's oracles over one finished ApplyPlanLive call.
func (o *Oracles) onApplyResult(w *World, st *Stack, c *apCall, planStable bool, planDigest, wantCanon, oldCanon string, plan, res provisioning.Diff, err error) {
	msg := ""
	if err != nil {
		msg = err.Error()
	}
	stale := strings.Contains(msg, "is stale")
	if err != nil && c.dbFaults > 1 {
		o.ap.memoryBroken = true // a roll-back met a store fault of its own: the services' in-memory view is off until restart
	}
	unauth := strings.Contains(msg, "requires operator authorization")
	var eff []string
	for _, e := range c.effects {
		eff = append(eff, fmt.Sprintf("%s(ok=%v)", e.what, e.ok))
	}
	w.probe("apply-call")
	switch {
	case stale:
		w.probe("apply-stale")
	case unauth:
		w.probe("apply-unauthorised")
	case err != nil:
		w.probe("apply-failed")
	case res.AppliedMode == provisioning.ApplyModeInPlace:
		w.probe("apply-in-place")
	case res.AppliedMode == provisioning.ApplyModeRestart:
		w.probe("apply-restart")
	default:
		w.probe("apply-ok-other")
	}
	// (a) a refusal has no effect whatsoever
	if (stale || unauth) && len(c.effects) > 0 {
		w.violate("C16", "refused-apply-had-effects", fmt.Sprintf("apply %q was refused (%s) but had effects: %v", c.kind, firstLine(msg), eff))
		return
	}
	// (b) a plan computed from a state that has changed since must be refused as stale
	if planStable && !c.overlapped && c.planNowDiffers && !stale {
		if err == nil || len(c.effects) > 0 {
			w.violate("C16", "stale-plan-applied", fmt.Sprintf("the stored configuration changed between plan and apply, yet apply %q was not refused as stale (result: %q, effects: %v)", c.kind, firstLine(msg), eff))
			return
		}
	}
	// (c13) C13: "if the new configuration cannot be opened the old one keeps running and the
	// caller gets the error" - a live-eligible change (single-worker processors of the default
	// engine) whose new processor cannot be built or opened must fail without stopping the pipeline
	if c.procFault != "" && len(c.targets) > 0 && w.cfg.Engine == "v1" && c.allow && c.runningAt && !c.stoppedAtFirstEffect && !c.statusMoved && !c.overlapped && !draining(w) && !o.ctl.userStopOK && !o.ctl.stopInFlight() {
		single := true
		for _, t := range c.targets {
			if pc := w.procs[t]; pc == nil || pc.cfg.Workers > 1 {
				single = false
			}
		}
		stopped := false
		for _, e := range c.effects {
			if e.what == "stopwait" || e.what == "stop" {
				stopped = true
			}
		}
		if single && stopped {
			w.violate("C13", "unopenable-config-stopped-pipeline", fmt.Sprintf("apply %q changes only settings of live-reconfigurable processors %v and the new configuration cannot be used (%s), yet the pipeline was stopped instead of going on with the old configuration (effects: %v, result: %q)", c.kind, c.targets, c.procFault, eff, firstLine(msg)))
			return
		}
		if single && err == nil {
			w.violate("C13", "unopenable-config-not-reported", fmt.Sprintf("apply %q: the new configuration of processors %v cannot be used (%s), yet the apply reported success (effects: %v)", c.kind, c.targets, c.procFault, eff))
			return
		}
	}
	// (c) without operator authorisation a running pipeline is not touched
	if !c.allow && c.runningAt && !c.stoppedAtFirstEffect && !c.statusMoved && !c.overlapped && len(c.effects) > 0 {
		w.violate("C16", "unauthorised-live-apply", fmt.Sprintf("apply %q was not authorised to touch a running pipeline, yet it had effects: %v (result: %q)", c.kind, eff, firstLine(msg)))
		return
	}
	if c.overlapped {
		o.ap.liveRev = nil
		return // another apply may have changed the configuration since: nothing more can be attributed
	}
	cur, xerr := st.provisioner().Export(context.Background(), PipelineID)
	memoryTrusted := !o.ap.memoryBroken
	// from now on (until the next apply) every record is processed with the configuration that
	// is exported: after a success the new one, after a refused or failed apply the old one
	if xerr == nil && c.dbFaults == 0 {
		exp := map[string]string{}
		note := func(ps []pconfig.Processor) {
			for _, p := range ps {
				exp[p.ID] = p.Settings["rev"]
			}
		}
		note(cur.Processors)
		for _, cn := range cur.Connectors {
			note(cn.Processors)
		}
		o.ap.liveRev = exp
	} else {
		o.ap.liveRev = nil
	}
	if xerr != nil && memoryTrusted {
		w.violate("C16", "export-failed-after-apply", fmt.Sprintf("after apply %q the pipeline cannot be exported: %s", c.kind, firstLine(xerr.Error())))
		return
	}
	got := ""
	if xerr == nil {
		got = canon(exportable(cur))
	}
	if err == nil && !stale {
		// (d) success: the configuration is exactly the desired one, the reported mode is what happened
		if got != wantCanon {
			w.violate("C16", "applied-config-differs", fmt.Sprintf("apply %q returned success but the exported configuration is not the desired one: %s", c.kind, diffViews(view{"cfg": wantCanon}, view{"cfg": got})))
			return
		}
		has := func(what string) bool {
			for _, e := range c.effects {
				if e.what == what && e.ok {
					return true
				}
			}
			return false
		}
		switch res.AppliedMode {
		case provisioning.ApplyModeInPlace:
			if has("stopwait") || has("start") {
				w.violate("C16", "mode-misreported", fmt.Sprintf("apply %q reported in-place mode but stopped/started the pipeline: %v", c.kind, eff))
			}
		case provisioning.ApplyModeRestart:
			if !has("stopwait") || !has("start") {
				w.violate("C16", "mode-misreported", fmt.Sprintf("apply %q reported restart mode without a successful stop-and-wait and start: %v", c.kind, eff))
			}
		}
		return
	}
	if stale || unauth {
		if got != oldCanon {
			w.violate("C16", "refused-apply-changed-config", fmt.Sprintf("apply %q was refused but the exported configuration changed: %s", c.kind, diffViews(view{"cfg": oldCanon}, view{"cfg": got})))
		}
		return
	}
	if o.ap.memoryBroken {
		return // what "old" was is no longer known: the in-memory view it is taken from has been off since a roll-back failed
	}
	if w.hasViolationClass("status-write-overwrote-newer-config") || w.hasViolationClass("import-overwrote-newer-status") || w.hasViolationClass("position-write-overwrote-newer-config") {
		return // the stored document was already damaged by the lost update reported above (its own finding)
	}
	// (e) failure: old or new, completely. What is promised is a consistent *stored*
	// configuration: restart every service from the durable map and export from there.
	fresh := w.newStack()
	fresh.inc = st.inc
	w.db.passthrough = true
	func() {
		defer func() { w.db.passthrough = false }()
		bg := context.Background()
		if e1, e2, e3 := fresh.proc.Init(bg), fresh.conn.Init(bg), fresh.pipe.Init(bg); e1 != nil || e2 != nil || e3 != nil {
			w.violate("C16", "failed-apply-left-unloadable-store", fmt.Sprintf("apply %q failed (%s) and the stored configuration can no longer be loaded: %v %v %v", c.kind, firstLine(msg), e1, e2, e3))
			return
		}
		stored, e := fresh.provisioner().Export(bg, PipelineID)
		if e != nil {
			w.violate("C16", "failed-apply-left-unloadable-store", fmt.Sprintf("apply %q failed (%s) and the stored pipeline cannot be exported: %s", c.kind, firstLine(msg), firstLine(e.Error())))
			return
		}
		if sc := canon(exportable(stored)); sc != oldCanon && sc != wantCanon {
			w.violate("C16", "failed-apply-left-mixed-stored-config", fmt.Sprintf("apply %q failed (%s) and the stored configuration is neither the old nor the new one: vs old: %s", c.kind, firstLine(msg), diffViews(view{"cfg": oldCanon}, view{"cfg": sc})))
		}
	}()
	if w.hasViolation() {
		return
	}
	// the services' in-memory view follows the store as long as the roll-back itself met no
	// further store failure (its own writes need the store)
	if memoryTrusted && got != oldCanon && got != wantCanon {
		w.violate("C16", "failed-apply-left-mixed-config", fmt.Sprintf("apply %q failed (%s) and left a configuration that is neither the old nor the new one: vs old: %s", c.kind, firstLine(msg), diffViews(view{"cfg": oldCanon}, view{"cfg": got})))
	}
}

// settleApply: end of an apply run - drain, then the generation bookkeeping of C13.
func (s *Sim) settleApply(client string) {
	w := s.w
	ctx := context.Background()
	if st, ok := w.or.effStatus(w); ok && st == 1 {
		if err := s.call(client, "stopwait", PipelineID, func(st *Stack) error { return st.life.StopAndWait(ctx, PipelineID) }); err != nil {
			_ = s.call(client, "wait", PipelineID, func(st *Stack) error { return st.life.WaitPipeline(PipelineID) })
		}
	}
	// generation bookkeeping only once the pipeline has really ended (a configuration that
	// cannot be opened keeps it in the restart loop)
	if st, ok := w.or.effStatus(w); ok && (st == 2 || st == 3 || st == 4) && len(w.or.openSessions(w)) == 0 && len(w.faultFired) == 0 {
		w.or.checkGenerations(w)
	}
}

func init() {
	extraOps["apply"] = func(s *Sim, client string, a Action) { s.apply(client, a) }
	extraOps["settle-apply"] = func(s *Sim, client string, a Action) { s.settleApply(client) }
}
