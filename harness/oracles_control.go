package harness

// Oracles for the control-plane properties C10 (recovery), C11 (control calls act on
// the live run), C12 (force stop). They read only seam events and call/return events.

import (
	"fmt"
	"regexp"
	"strconv"
	"strings"
)

type ctlState struct {
	// recovery model
	recoveringAt                                 int64   // sim ms of the last durable "recovering" status (-1 = none pending)
	restartTimes                                 []int64 // sim ms of automatic restarts (first plugin call parked)
	autoRestarts                                 int
	userStopOK                                   bool // a user Stop/StopAndWait/StopAll returned nil and no user Start came after
	userStopSeq                                  int
	lastRecoveringAt                             int64            // when the pipeline was last marked recovering (not reset by the restart)
	callTime                                     map[string]int64 // client -> simulated time its call in flight was issued
	stopIssuedAt, forceIssuedAt                  int64            // when the acknowledged stop / force stop request returned (it took effect at some instant before)
	forceStopped                                 bool
	forceStopSeq                                 int
	runStartStep                                 []int // scheduler step at which each run (first open after a start) began
	lastStartStep                                int
	inFlight                                     map[string]int // client -> seq of CALL without RET
	callNote                                     map[string]string
	statusAtCall                                 map[string]int
	runAtCall                                    map[string]int
	degradedErr                                  string
	clientDone                                   map[string]bool
	startCallStep                                map[string]int
	lastAction                                   map[string]bool
	lastUserStart                                int
	shutdown                                     bool
	stopDuringBackoff                            bool
	stopKind                                     string
	stopClient                                   string
	userStartSinceRecovering                     bool
	everUserStartDuringRecovery                  bool
	dstNacks, dlqRejects, procErrors, stuckCalls int
	dstNacksBySrc                                map[string]int // rejections per source (v2 keeps one nack window per source, v1 one per pipeline)
	restartInProgress                            bool           // an automatic restart has begun and the pipeline is not yet reported running again
	forceStopIssued                              bool           // a force stop request has been issued at some time in this run
	forceStopFoundRunOver                        bool           // ... and at that moment the run had already closed all its plugin sessions
	forceDuringGraceful                          bool           // ... or a graceful stop of that run had already been acknowledged
	ambiguousUntil                               int64          // sim ms until which the number of restarts left cannot be known
	// the start in progress (a Start call or an automatic restart) and what its run has done so far
	startActive       bool
	openedSinceStart  int
	terminalAfterOpen bool
}

func newCtlState() *ctlState {
	return &ctlState{recoveringAt: -1, lastRecoveringAt: -1, inFlight: map[string]int{}, callNote: map[string]string{}, statusAtCall: map[string]int{}, runAtCall: map[string]int{}, clientDone: map[string]bool{}, startCallStep: map[string]int{}, lastAction: map[string]bool{}}
}

var faultStepRe = regexp.MustCompile(`@s(\d+)`)

// onPark is called by World.park for every seam call: the first plugin call parked
// after a durable "recovering" status is the moment the automatic restart began.
func (o *Oracles) onPark(w *World, kind string) {
	c := o.ctl
	if c.recoveringAt < 0 {
		return
	}
	if !(strings.HasPrefix(kind, "src.") || strings.HasPrefix(kind, "dst.") || strings.HasPrefix(kind, "dlq.") || strings.HasPrefix(kind, "proc.")) {
		return
	}
	if len(o.ap.inFlight) > 0 {
		// plugin calls made on behalf of a live apply (in-place swap, validation) are not a
		// restart - and the real restart can no longer be timed from outside in this episode
		c.userStartSinceRecovering = true
		return
	}
	now := w.now()
	d := now - c.recoveringAt
	c.recoveringAt = -1
	c.restartInProgress = true
	c.startActive, c.openedSinceStart, c.terminalAfterOpen = true, 0, false
	if c.userStartSinceRecovering {
		// a user Start overlapped this recovery episode: whose start this is cannot be told
		// from the outside (and the user's run inherits the retry counters); count it, check nothing
		c.restartTimes = append(c.restartTimes, now)
		return
	}
	c.restartTimes = append(c.restartTimes, now)
	c.autoRestarts++
	c.runStartStep = append(c.runStartStep, w.step) // the restarted run begins here
	w.probe("auto-restart")
	rc := w.cfg.Recovery
	if w.cfg.Hostile || o.statusWriteFailedEver {
		return
	}
	// lower bound exact; upper bound plus what the world may take to answer the calls the
	// restart makes before its first plugin call (store reads, a start lock held by a user
	// Start that is itself waiting for the store): the simulator answers within 700 ms each
	if d < int64(rc.MinDelayMs) || d > int64(rc.MaxDelayMs)+1500 {
		w.violate("C10", "backoff-out-of-bounds", fmt.Sprintf("automatic restart began %d ms after the pipeline was marked recovering; configured back-off bounds are [%d, %d] ms", d, rc.MinDelayMs, rc.MaxDelayMs))
	}
	// a request that returned when the shortest back-off had already elapsed may have met the restart
	// goroutine between its last look at the stop flags and the publication of the new run
	// (known finding F5: the engine then stops the run it has just started instead of not
	// starting it); one that returned earlier found the goroutine waiting and must prevent the restart
	racing := func(issuedAt int64) string {
		if c.lastRecoveringAt >= 0 && issuedAt-c.lastRecoveringAt >= int64(rc.MinDelayMs) {
			return "-racing-the-restart"
		}
		return ""
	}
	if c.userStopOK {
		cls, when := "restart-after-stop", ""
		if c.stopDuringBackoff {
			cls, when = "restart-after-stop-issued-during-backoff", " (the request was issued while the pipeline was waiting to be restarted)"
		}
		cls += racing(c.stopIssuedAt)
		w.violate("C10", cls, fmt.Sprintf("pipeline was restarted automatically after a %s request had returned success (event #%d)%s; request returned %d ms after the pipeline was marked recovering, shortest back-off %d ms", c.stopKind, c.userStopSeq, when, c.stopIssuedAt-c.lastRecoveringAt, rc.MinDelayMs))
	}
	if c.forceStopped {
		sfx := racing(c.forceIssuedAt)
		w.violate("C12", "restart-after-force-stop"+sfx, fmt.Sprintf("pipeline was restarted automatically after a force stop (returned %d ms after the pipeline was marked recovering, shortest back-off %d ms)", c.forceIssuedAt-c.lastRecoveringAt, rc.MinDelayMs))
		w.violate("C10", "restart-after-force-stop"+sfx, fmt.Sprintf("pipeline was restarted automatically after a force stop (a force stop is a fatal cause: degraded, never restarted); returned %d ms after the pipeline was marked recovering, shortest back-off %d ms", c.forceIssuedAt-c.lastRecoveringAt, rc.MinDelayMs))
	}
}

func (o *Oracles) onControlEvent(w *World, e *Event) {
	c := o.ctl
	switch e.Kind {
	case "CRASH", "BOOT":
		// a process crash ends the back-off wait; the start at boot is not a back-off restart
		c.recoveringAt = -1
		c.restartTimes = nil
		c.restartInProgress = false
	case "SRC_OPEN", "DST_OPEN":
		if c.startActive && e.Err == "" {
			c.openedSinceStart++
		}
	case "STATUS":
		o.ap.statusEvents++
		c.restartInProgress = false
		switch e.N {
		case 5:
			c.recoveringAt = e.T
			c.lastRecoveringAt = e.T
			c.userStartSinceRecovering = len(c.startInFlight()) > 0
			// attempts model: restarts still counted at this moment
			rc := w.cfg.Recovery
			if rc.MaxRetries >= 0 && !o.statusWriteFailedEver {
				counted, boundary := 0, false
				for _, rt := range c.restartTimes {
					exp := rt + int64(rc.WindowMs)
					if exp > e.T {
						counted++
					}
					if exp >= e.T-2 && exp <= e.T+2 {
						boundary = true
					}
				}
				o.expectGiveUp = !boundary && int64(counted)+1 > rc.MaxRetries
				o.expectRestart = !boundary && int64(counted)+1 <= rc.MaxRetries && e.T > c.ambiguousUntil
			} else {
				o.expectGiveUp, o.expectRestart = false, rc.MaxRetries < 0
			}
		case 4:
			_, errText, _ := w.db.durableStatus(PipelineID)
			c.degradedErr = errText
			if c.recoveringAt >= 0 {
				// gave up instead of restarting
				c.recoveringAt = -1
				if o.expectRestart && w.cfg.Scenario == "transient" && !c.userStartSinceRecovering && !c.everUserStartDuringRecovery && !w.cfg.Hostile && !strings.Contains(errText, "sim-fault") && strings.Contains(errText, "couldn't be recovered") {
					w.violate("C10", "gave-up-too-early", fmt.Sprintf("pipeline was degraded with %q although fewer than max-retries=%d automatic restarts fell into the retry window of %d ms", firstLine(errText), w.cfg.Recovery.MaxRetries, w.cfg.Recovery.WindowMs))
				}
			}
		case 2, 3:
			c.recoveringAt = -1
		}
	case "CALL":
		op := strings.Fields(e.Note + " x")[0]
		c.inFlight[e.Ent] = e.Seq
		c.callNote[e.Ent] = e.Note
		if c.callTime == nil {
			c.callTime = map[string]int64{}
		}
		c.callTime[e.Ent] = e.T
		st, _, _ := w.db.durableStatus(PipelineID)
		c.statusAtCall[e.Ent] = st
		c.runAtCall[e.Ent] = len(c.runStartStep)
		if op == "forcestop" {
			c.forceStopIssued = true
			// the run this request is aimed at had already ended (every plugin session closed,
			// e.g. by a graceful stop that has just finished draining): it changes nothing any more
			c.forceStopFoundRunOver = len(o.openSessions(w)) == 0
			// a graceful stop had already been acknowledged: the run is ending anyway, and whether
			// its cleanup sees the force stop or has already settled on "stopped" is a photo finish
			c.forceDuringGraceful = c.userStopOK || c.gracefulInFlight()
		}
		if op == "start" {
			c.startActive, c.openedSinceStart, c.terminalAfterOpen = true, 0, false
			if c.recoveringAt >= 0 {
				c.userStartSinceRecovering = true
				c.everUserStartDuringRecovery = true
			}
			c.lastStartStep = w.step
			c.startCallStep[e.Ent] = w.step
		}
	case "RET", "RET_LOST":
		delete(c.inFlight, e.Ent)
		op := strings.Fields(e.Note + " x")[0]
		switch op {
		case "start":
			if e.OK {
				c.runStartStep = append(c.runStartStep, c.startCallStep[e.Ent]) // a new run began with this call
				c.userStopOK, c.forceStopped = false, false
				if c.statusAtCall[e.Ent] != 5 {
					// a fresh run gets fresh retry counters (a recovering one hands them on) - unless
					// the start raced the end of the previous run's cleanup and inherited them:
					// until the window has passed, how many restarts are left is not decidable
					if n := len(c.restartTimes); n > 0 {
						c.ambiguousUntil = c.restartTimes[n-1] + int64(w.cfg.Recovery.WindowMs)
					}
					c.restartTimes = nil
				}
				c.lastUserStart = e.Seq
			}
		case "stop", "stopwait":
			if e.OK && e.Kind == "RET" {
				for cl := range c.inFlight {
					if strings.HasPrefix(c.callNote[cl], "forcestop") {
						c.forceDuringGraceful = true // a graceful stop was acknowledged while the force stop was under way
					}
				}
				c.userStopOK, c.userStopSeq = true, e.Seq
				c.stopIssuedAt = e.T
				c.stopDuringBackoff, c.stopKind, c.stopClient = c.statusAtCall[e.Ent] == 5, "user stop", e.Ent
			}
		case "stopall":
			if e.Kind == "RET" {
				c.userStopOK, c.userStopSeq, c.shutdown = true, e.Seq, true
				c.stopIssuedAt = e.T
				c.stopDuringBackoff, c.stopKind = c.statusAtCall[e.Ent] == 5, "server shutdown (StopAll)"
			}
		case "forcestop":
			if e.OK && e.Kind == "RET" {
				c.forceStopped, c.forceStopSeq = true, e.Seq
				c.forceIssuedAt = e.T
				c.stopClient = e.Ent
				// the run had finished by itself (a graceful stop completed: every session closed,
				// stopped status stored) before the request took effect: nothing was left to force
				if st, _, ok := w.db.durableStatus(PipelineID); ok && (st == 2 || st == 3) && len(o.openSessions(w)) == 0 {
					c.forceStopFoundRunOver = true
				}
			}
		case "wait":
			o.checkWaitResult(w, e)
		}
	case "DST_ACK":
		if !e.OK {
			c.dstNacks++
			for _, id := range e.IDs {
				if c.dstNacksBySrc == nil {
					c.dstNacksBySrc = map[string]int{}
				}
				c.dstNacksBySrc[id.Src]++
			}
		}
	case "DLQ_ACK":
		if !e.OK {
			c.dlqRejects++
		}
	case "PROC_PROCESS":
		if e.Note == "stuck" {
			c.stuckCalls++
		} else if i := strings.IndexByte(e.Note, '|'); i > 0 && strings.Contains(e.Note[:i], "e") {
			c.procErrors++
		}
	}
}

// someSourceNackedMoreThan: every record of the scenario is rejected, so a source with more
// than thr rejections has exceeded the threshold in either engine's window.
func (c *ctlState) someSourceNackedMoreThan(thr int) bool {
	for _, n := range c.dstNacksBySrc {
		if n > thr {
			return true
		}
	}
	return false
}

// gracefulInFlight: a graceful stop request has been issued and has not returned yet (it may
// already have taken effect: the run is draining or over).
func (c *ctlState) gracefulInFlight() bool {
	for cl := range c.inFlight {
		n := c.callNote[cl]
		if strings.HasPrefix(n, "stop ") || strings.HasPrefix(n, "stopwait") || strings.HasPrefix(n, "stopall") || n == "stop" {
			return true
		}
	}
	return false
}

func firstLine(s string) string {
	if i := strings.IndexByte(s, '\n'); i >= 0 {
		s = s[:i]
	}
	if len(s) > 200 {
		s = s[:200]
	}
	return s
}

// checkWaitResult: C11 - wait returns the terminal result of the run it waited for.
// Injected faults carry the scheduler step at which they were injected ("@s<step>"), so
// an error made only of faults older than the run that was live when the wait was
// issued is a result of an earlier run.
func (o *Oracles) checkWaitResult(w *World, e *Event) {
	c := o.ctl
	if e.Kind != "RET" || e.Err == "" || w.cfg.Hostile {
		return
	}
	if c.statusAtCall[e.Ent] != 1 {
		return // not reported as running when the wait was issued: nothing is promised
	}
	runIdx := c.runAtCall[e.Ent]
	if runIdx == 0 || runIdx > len(c.runStartStep) {
		return
	}
	runStart := c.runStartStep[runIdx-1]
	ms := faultStepRe.FindAllStringSubmatch(e.Err, -1)
	if len(ms) == 0 {
		return
	}
	newest := -1
	for _, m := range ms {
		n, _ := strconv.Atoi(m[1])
		if n > newest {
			newest = n
		}
	}
	if newest < runStart {
		w.violate("C11", "wait-returned-earlier-runs-result", fmt.Sprintf("WaitPipeline was issued while the pipeline was reported running (run #%d, started at step %d) but returned an error caused at step %d, before that run existed: %s", runIdx, runStart, newest, firstLine(e.Err)))
	}
}

// settled: nothing more will happen without a client: the pipeline is terminal with every
// plugin session closed, or it is running and every record has been acknowledged.
func (o *Oracles) settled(w *World) bool {
	if w.gatesParked() > 0 {
		return false // a preempted goroutine of the engine still has work to do
	}
	if len(o.ctl.inFlight) > 0 {
		for cl := range o.ctl.inFlight {
			if cl != "main" && !strings.HasPrefix(o.ctl.callNote[cl], "wait") {
				return false
			}
		}
	}
	st, _, ok := w.db.durableStatus(PipelineID)
	if !ok {
		return false
	}
	if w.memStatus != nil {
		if ms := w.memStatus(); ms != 0 && ms != st {
			if !o.statusWriteFailedEver {
				return false // a status write is still on its way to the store
			}
			st = ms // a status write failed: the store may never agree, the engine's own view decides
		}
	}
	switch st {
	case 2, 3, 4:
		return len(o.openSessions(w)) == 0
	case 1:
		return o.allDrained(w)
	}
	return false
}

// finalControlChecks: end-of-run agreement between stored status and reality, scenario expectations.
func (o *Oracles) finalControlChecks(w *World) {
	if w.cfg.Hostile || o.statusWriteFailedEver || !w.bootOK[w.inc] {
		return
	}
	st, errText, ok := w.db.durableStatus(PipelineID)
	if !ok {
		return
	}
	open := o.openSessions(w)
	idle := w.worldParked() == 0 && w.stallCount() == 0
	// stored status says a run exists but every session is closed and nothing is in flight
	if st == 1 && len(open) == 0 && idle && w.finished && !o.everyRecordAcked(w) {
		w.violate("C11", "status-running-without-run", "the run is over (every plugin session torn down, nothing in flight) but the stored status is still running")
	}
	_ = errText
}

// scenarioChecks is evaluated when the run has settled, before the restartability probe.
func (o *Oracles) scenarioChecks(w *World) {
	c := o.ctl
	if w.cfg.Hostile || o.statusWriteFailedEver || !w.bootOK[w.inc] {
		return
	}
	st, errText, ok := w.db.durableStatus(PipelineID)
	if !ok {
		return
	}
	switch w.cfg.Scenario {
	case "fatal-dlq-threshold", "fatal-dlq-write", "fatal-proc-error", "fatal-nonconverge":
		// the scripted cause must actually have occurred in this run
		occurred := map[string]bool{"fatal-dlq-threshold": c.someSourceNackedMoreThan(w.cfg.DLQ.Threshold), "fatal-dlq-write": c.dlqRejects > 0, "fatal-proc-error": c.procErrors > 0, "fatal-nonconverge": c.stuckCalls > 0}[w.cfg.Scenario]
		if !occurred {
			return
		}
		if st != 4 {
			w.violate("C10", "fatal-not-degraded", fmt.Sprintf("scenario %s: the pipeline hit a fatal cause but its final status is %s (error %q), automatic restarts: %d", w.cfg.Scenario, statusName(st), firstLine(errText), c.autoRestarts))
			return
		}
		if c.autoRestarts > 0 && w.cfg.Scenario != "fatal-proc-error" {
			w.violate("C10", "fatal-restarted", fmt.Sprintf("scenario %s: the pipeline was restarted automatically %d time(s) after a fatal failure", w.cfg.Scenario, c.autoRestarts))
		}
		want := map[string]string{"fatal-dlq-threshold": "sim-nack", "fatal-dlq-write": "sim-nack", "fatal-proc-error": "sim-procerr", "fatal-nonconverge": ""}[w.cfg.Scenario]
		if want != "" && !strings.Contains(errText, want) {
			w.violate("C10", "degraded-without-cause", fmt.Sprintf("scenario %s: stored error does not name the cause (%q expected): %q", w.cfg.Scenario, want, firstLine(errText)))
		}
	case "force-during-restart":
		// a force stop acknowledged while the automatic restart was under way: the pipeline
		// ends failed-by-force-stop, not running and not restarted
		if c.forceStopped && c.stopClient == "user" {
			if st != 4 {
				w.violate("C12", "force-stop-status", fmt.Sprintf("a force stop issued during an automatic restart returned success but the final status is %s, expected degraded", statusName(st)))
			} else if !strings.Contains(errText, "force stop") {
				w.violate("C12", "force-stop-cause-missing", fmt.Sprintf("pipeline degraded after a force stop but the stored error does not name it: %q", firstLine(errText)))
			}
		}
	case "user-stop", "stop-during-backoff", "stop-during-restart":
		// a run that had already failed with its retries exhausted when the stop request
		// arrived (the request raced the failure: the pipeline was not yet marked recovering)
		// legitimately ends degraded with that cause recorded - the first clause of C10
		// ... or whose retry budget was used up at that failure: with max-retries automatic
		// restarts already made (none at all when max-retries is 0) the engine stores
		// "recovering" and gives up in the same breath; a stop that lands between those two
		// status writes finds a run that has already failed for good
		budgetUsed := w.cfg.Recovery.MaxRetries >= 0 && int64(c.autoRestarts) >= w.cfg.Recovery.MaxRetries
		exhausted := st == 4 && strings.Contains(errText, "couldn't be recovered") && (!c.stopDuringBackoff || budgetUsed)
		if c.userStopOK && c.stopClient == "user" && st != 3 && !exhausted {
			w.violate("C10", "stopped-status-mismatch", fmt.Sprintf("a user stop returned success but the final status is %s", statusName(st)))
		}
	case "stopall", "stopall-during-backoff":
		if c.shutdown && st != 2 && st != 4 {
			w.violate("C10", "stopped-status-mismatch", fmt.Sprintf("the server shut down gracefully but the final status of the pipeline is %s", statusName(st)))
		}
	}
}

func (o *Oracles) everyRecordAcked(w *World) bool {
	for _, s := range w.srcs {
		if s.ackedMax < len(s.recs) {
			return false
		}
	}
	return true
}

// checkRestartError: a Start after the previous run has completely ended may fail because a
// plugin fails, never because the previous run still holds a connector or a processor.
func (o *Oracles) checkRestartError(w *World, err error) {
	msg := err.Error()
	if strings.Contains(msg, "sim-fault") {
		return
	}
	for _, bad := range []string{"is running", "already running", "ErrProcessorRunning", "ErrConnectorRunning", "processor is running", "connector is running"} {
		if strings.Contains(msg, bad) {
			w.violate("C11", "not-restartable", fmt.Sprintf("every session of the previous run is closed and its status is terminal, yet Start fails: %s", firstLine(msg)))
			return
		}
	}
}

// checkForceStopped: evaluated after Stop(force) returned and WaitPipeline returned.
func (o *Oracles) checkForceStopped(w *World) {
	c := o.ctl
	if !c.forceStopped || o.statusWriteFailedEver || c.forceStopFoundRunOver {
		return
	}
	st, errText, ok := w.db.durableStatus(PipelineID)
	if !ok {
		return
	}
	if open := o.openSessions(w); len(open) > 0 {
		w.violate("C12", "force-stop-left-sessions-open", fmt.Sprintf("force stop and wait returned but plugin sessions %v are still open", open))
	}
	if c.forceDuringGraceful && (st == 2 || st == 3) {
		return // the graceful stop that was under way completed; the run terminated, nothing was left to force
	}
	if st != 4 {
		w.violate("C12", "force-stop-status", fmt.Sprintf("after a force stop the stored status is %s, expected degraded", statusName(st)))
	} else if !strings.Contains(errText, "force stop") {
		w.violate("C12", "force-stop-cause-missing", fmt.Sprintf("pipeline degraded after a force stop but the stored error does not name it: %q", firstLine(errText)))
	}
}

// stopInFlight: some stop request (of any kind) has been issued and has not returned yet.
func (c *ctlState) stopInFlight() bool {
	for cl := range c.inFlight {
		n := c.callNote[cl]
		if strings.HasPrefix(n, "stop") || strings.HasPrefix(n, "forcestop") {
			return true
		}
	}
	return false
}

func (c *ctlState) startInFlight() []string {
	var out []string
	for cl := range c.inFlight {
		if strings.HasPrefix(c.callNote[cl], "start") {
			out = append(out, cl)
		}
	}
	return out
}
