package harness

// Online oracles over the seam event log. They share nothing with engine internals:
// inputs are the configuration (topology, scripts) and the events.

import (
	"encoding/hex"
	"fmt"
	"sort"
	"strconv"
	"strings"
)

type delivKey struct {
	Src string
	Idx int
	N   int
}

type leafKey struct {
	Dst  string
	Src  string
	Idx  int
	N    int
	Path string
}

type sessState struct {
	emitted []int // record indexes in emit order
	acked   int
	open    bool
	inc     int
	toreAt  int
	seq     int       // session number of the source
	win     *winModel // C07 reference model of the nack window of this run
	winOff  bool      // the outcome sequence of this run is not known exactly
}

type Oracles struct {
	// per (source, session)
	sess map[string]*sessState
	// leaves confirmed ok / nacked by a destination
	confirmed map[leafKey]int // seq of DST_ACK ok
	nacked    map[leafKey]int
	written   map[leafKey]int
	// deliveries confirmed in a DLQ: seq of DLQ_ACK ok
	dlqOK      map[delivKey]int
	dlqWrites  map[delivKey]int // count of DLQ writes per delivery
	dlqFailed  map[delivKey]int
	dlqState   map[delivKey]string // pending | ok | failed
	dlqPending map[string][]delivKey
	dlqFaulted map[string]bool
	// records handled (accept rule satisfied) per source index, any delivery
	handled map[string]map[int]bool
	// last durable position index per source (-1 none)
	durIdx map[string]int
	durSet map[string]bool
	// per destination session last (src -> (idx,path)) written
	lastWrite map[string][2]string
	// processing per (proc, record origin+path, delivery) count
	processed map[string]int

	ackedDeliveries       map[delivKey]int
	crashed               bool
	ctl                   *ctlState
	rc                    *reconfState
	expectGiveUp          bool
	expectRestart         bool
	runEnded              bool
	statusWriteFailed     bool
	statusWriteFailedEver bool
	bootInc               map[int]bool // incarnations whose first open per source was checked
	firstOpen             map[string]bool
	statusHist            []int
	lastFaultSeq          int
	// teardown/open pairing
	opens     map[string]int
	teardowns map[string]int
	ap        *apState
	drainAs   string // property that checkDrained reports under ("" = C06)
}

func newOracles() *Oracles {
	return &Oracles{
		sess: map[string]*sessState{}, confirmed: map[leafKey]int{}, nacked: map[leafKey]int{}, written: map[leafKey]int{},
		dlqOK: map[delivKey]int{}, dlqWrites: map[delivKey]int{}, dlqFailed: map[delivKey]int{}, dlqState: map[delivKey]string{}, dlqPending: map[string][]delivKey{}, dlqFaulted: map[string]bool{},
		handled: map[string]map[int]bool{}, durIdx: map[string]int{}, durSet: map[string]bool{},
		lastWrite: map[string][2]string{}, processed: map[string]int{}, ackedDeliveries: map[delivKey]int{},
		ctl: newCtlState(), rc: newReconfState(), ap: newApState(),
		bootInc: map[int]bool{}, firstOpen: map[string]bool{}, opens: map[string]int{}, teardowns: map[string]int{},
	}
}

func sessKey(ent string, n int) string { return ent + "#" + strconv.Itoa(n) }

// chain returns the processors a record of source s passes on its way to destination d.
func (c *Config) chain(s, d string) []ProcCfg {
	var out []ProcCfg
	for _, sc := range c.Sources {
		if sc.ID == s {
			out = append(out, sc.Procs...)
		}
	}
	out = append(out, c.PipeProcs...)
	for _, dc := range c.Dests {
		if dc.ID == d {
			out = append(out, dc.Procs...)
		}
	}
	return out
}

// accountingChain: the chain from src to dst contains a processor whose results need
// accounting (filter, split, error, short answers, or a condition).
func (c *Config) accountingChain(src, dst string) bool {
	for _, pc := range c.chain(src, dst) {
		if pc.FilterPct > 0 || pc.SplitPct > 0 || pc.ErrorPct > 0 || pc.ShortPct > 0 || pc.Cond != "" {
			return true
		}
	}
	return false
}

func (c *Config) accountingChainAny(src string) bool {
	for _, d := range c.Dests {
		if c.accountingChain(src, d.ID) {
			return true
		}
	}
	return false
}

// scripted verdict of processor pc for a record (same function the fake uses).
func scriptVerdict(seed int64, pc ProcCfg, id RecID) string {
	p := simProc{sys: &ProcSys{cfg: pc, w: &World{cfg: &Config{Seed: seed}}}}
	return p.verdict(id)
}

func scriptSplitK(seed int64, pc ProcCfg, id RecID) int {
	p := simProc{sys: &ProcSys{cfg: pc, w: &World{cfg: &Config{Seed: seed}}}}
	return 2 + p.hash(id, "k")%3
}

// expectedLeaves walks the scripted processor chain for delivery D towards dst.
// paths: every leaf the chain can hand to dst (a leaf is derivable even when a
// sibling piece or a later stage of another piece fails - the engine delivers
// sub-batches left to right). rejected: some stage answers some piece with an error
// (or with a result kind the engine cannot deliver), so the record as a whole must
// be dead-lettered rather than acknowledged as delivered.
func (c *Config) expectedLeaves(D delivKey, dst string) (paths []string, rejected bool) {
	m, rej := c.expectedLeafStamps(D, dst)
	for p := range m {
		paths = append(paths, p)
	}
	sort.Strings(paths)
	return paths, rej
}

// expectedLeafStamps: leaf path -> ids of the processors that must have handled it, in order.
func (c *Config) expectedLeafStamps(D delivKey, dst string) (map[string][]string, bool) {
	rejected := false
	cur := map[string][]string{"": nil}
	for _, pc := range c.chain(D.Src, dst) {
		next := map[string][]string{}
		for p, st := range cur {
			id := RecID{Src: D.Src, Idx: D.Idx, N: D.N, Path: p}
			if !condHolds(c.Seed, pc.Cond, D.Src, D.Idx) {
				next[p] = st // condition false: passes through untouched
				continue
			}
			st2 := append(append([]string(nil), st...), pc.ID)
			switch scriptVerdict(c.Seed, pc, id) {
			case "error":
				rejected = true
			case "filter":
			case "split":
				if c.Engine == "v1" {
					rejected = true // fan-out results are refused by the default engine
					continue
				}
				k := scriptSplitK(c.Seed, pc, id)
				for j := 0; j < k; j++ {
					next[fmt.Sprintf("%s/%d", p, j)] = st2
				}
			default:
				next[p] = st2
			}
		}
		cur = next
	}
	return cur, rejected
}

// accepted implements C01's accept rule for delivery D at this moment.
func (o *Oracles) accepted(w *World, D delivKey) (bool, string) {
	if _, ok := o.dlqOK[D]; ok {
		return true, "dlq"
	}
	if w.cfg.Hostile {
		// plugin replies are not scripted: judge by what was observed. Every leaf of D that
		// reached a destination must be confirmed; a rejected or unconfirmed one needs the DLQ.
		for lk := range o.written {
			if lk.Src == D.Src && lk.Idx == D.Idx && lk.N == D.N {
				if _, ok := o.confirmed[lk]; !ok {
					return false, fmt.Sprintf("leaf %q written to %s is not confirmed", lk.Path, lk.Dst)
				}
			}
		}
		return true, "delivered-or-dropped-by-plugin"
	}
	for _, dc := range w.cfg.Dests {
		paths, rejected := w.cfg.expectedLeaves(D, dc.ID)
		if rejected {
			return false, fmt.Sprintf("processor chain towards %s rejects the record and no DLQ confirmation exists", dc.ID)
		}
		for _, p := range paths {
			lk := leafKey{Dst: dc.ID, Src: D.Src, Idx: D.Idx, N: D.N, Path: p}
			if _, ok := o.confirmed[lk]; !ok {
				why := "never confirmed"
				if _, n := o.nacked[lk]; n {
					why = "rejected"
				} else if _, wr := o.written[lk]; !wr {
					why = "never written"
				}
				return false, fmt.Sprintf("leaf %q towards %s %s", p, dc.ID, why)
			}
		}
	}
	return true, "delivered"
}

func (o *Oracles) markHandled(src string, idx int) {
	m := o.handled[src]
	if m == nil {
		m = map[int]bool{}
		o.handled[src] = m
	}
	m[idx] = true
}

// isHandled: some delivery of record idx satisfied the accept rule at some time.
func (o *Oracles) isHandled(w *World, src string, idx int) bool {
	if o.handled[src][idx] {
		return true
	}
	sys := w.srcs[src]
	if sys == nil {
		return false
	}
	for n := 1; n <= sys.sessions; n++ {
		if ok, _ := o.accepted(w, delivKey{src, idx, n}); ok {
			o.markHandled(src, idx)
			return true
		}
	}
	return false
}

func (o *Oracles) onCrash(w *World) { o.crashed = true }

func (o *Oracles) onEvent(w *World, e *Event) {
	o.onControlEvent(w, e)
	o.onReconfEvent(w, e)
	hostile := w.cfg.Hostile
	hostileSrc := w.cfg.HostileSrc
	switch e.Kind {
	case "SRC_OPEN":
		if e.Err != "" {
			w.violate("C03", "open-unknown-position", fmt.Sprintf("source %s opened with a position it never produced: %v", e.Ent, e.Pos))
			return
		}
		o.sess[sessKey(e.Ent, e.Sess)] = &sessState{open: true, inc: e.Inc, seq: e.Sess}
		o.opens[e.Ent]++
		// C03: never reopen past an unhandled record
		for i := 0; i < e.N; i++ {
			if !o.isHandled(w, e.Ent, i) {
				w.violate("C03", "open-past-unhandled", fmt.Sprintf("source %s reopened at index %d but record %d was never confirmed by all destinations, dead-lettered or filtered", e.Ent, e.N, i))
				break
			}
		}
		// C03: first open of a new incarnation carries exactly the durable position
		fk := fmt.Sprintf("%s@%d", e.Ent, e.Inc)
		if e.Inc > 1 && !o.firstOpen[fk] {
			o.firstOpen[fk] = true
			pos, _, has := w.db.durablePosition(e.Ent)
			want := ""
			if has {
				want = posHex(pos)
			}
			if len(e.Pos) == 1 && e.Pos[0] != want {
				w.violate("C03", "restart-position-not-durable", fmt.Sprintf("after restart source %s was opened with position %s but the store holds %s", e.Ent, e.Pos[0], want))
			}
			w.probe("reopen-after-crash")
		}
	case "SRC_EMIT":
		s := o.sess[sessKey(e.Ent, e.Sess)]
		if s != nil {
			for _, id := range e.IDs {
				s.emitted = append(s.emitted, id.Idx)
			}
		}
	case "SRC_TEARDOWN":
		if s := o.sess[sessKey(e.Ent, e.Sess)]; s != nil {
			s.open = false
			s.toreAt = e.Seq
		}
		if e.Sess > 0 {
			o.teardowns[e.Ent]++
		}
	case "SRC_ACK":
		s := o.sess[sessKey(e.Ent, e.Sess)]
		for i, id := range e.IDs {
			// C04: k-th ack is the k-th emitted record of the session
			if s != nil && !hostileSrc {
				if s.acked >= len(s.emitted) {
					w.violate("C04", "ack-beyond-emitted", fmt.Sprintf("source %s session %d got ack #%d (%s) but only %d records were emitted", e.Ent, e.Sess, s.acked+1, e.Pos[i], len(s.emitted)))
				} else if s.emitted[s.acked] != id.Idx {
					cls := "ack-out-of-order"
					if id.Idx > s.emitted[s.acked] {
						cls = "ack-gap"
					} else if id.Idx >= 0 {
						cls = "ack-repeat"
					}
					w.violate("C04", cls, fmt.Sprintf("source %s session %d: ack #%d is for record %d, expected record %d (acks must follow read order with no gaps or repeats)", e.Ent, e.Sess, s.acked+1, id.Idx, s.emitted[s.acked]))
					if cls == "ack-gap" && !hostile && w.cfg.accountingChainAny(id.Src) {
						// C08: with filtering / splitting / erroring / short-answering / conditional
						// processors in the chain a record that the acks pass over has ended with no
						// outcome at all (neither acknowledged nor dead-lettered nor the run stopped at it)
						w.violate("C08", "record-without-outcome", fmt.Sprintf("source %s session %d: record %d was passed over - record %d was acknowledged while it has neither been acknowledged nor dead-lettered nor stopped the pipeline: every source record ends with exactly one outcome", e.Ent, e.Sess, s.emitted[s.acked], id.Idx))
					}
				}
				s.acked++
			}
			if id.Idx < 0 {
				w.violate("C04", "ack-unknown-position", fmt.Sprintf("source %s got an ack for a position it never produced: %s", e.Ent, e.Pos[i]))
				continue
			}
			D := delivKey{id.Src, id.Idx, id.N}
			o.ackedDeliveries[D] = e.Seq
			// C01
			ok, why := o.accepted(w, D)
			if !ok {
				w.violate("C01", "ack-before-confirmation", fmt.Sprintf("source %s was acked record %d (delivery %d) but %s", e.Ent, id.Idx, id.N, why))
				if o.ctl.forceStopIssued {
					w.violate("C12", "force-stop-acked-unhandled", fmt.Sprintf("after a force stop source %s was acked record %d (delivery %d) but %s", e.Ent, id.Idx, id.N, why))
				}
				if !hostile && strings.Contains(why, "never written") && w.cfg.accountingChainAny(id.Src) {
					w.violate("C08", "leaf-lost", fmt.Sprintf("record %s/%d (delivery %d) was acknowledged to its source but %s: a piece the scripted processor chain produces never reached its destination", e.Ent, id.Idx, id.N, why))
				}
			} else {
				o.markHandled(id.Src, id.Idx)
				if why == "dlq" {
					w.probe("ack-after-dlq")
				}
				o.onWindowOutcome(w, s, id.Src, id.Idx, why == "dlq")
			}
			// C02 (i): durable before told
			di, set := o.durIdx[e.Ent], o.durSet[e.Ent]
			if (!set || di < id.Idx) && !hostileSrc {
				have := "none"
				if set {
					have = strconv.Itoa(di)
				}
				w.violate("C02", "ack-before-durable", fmt.Sprintf("source %s was acked record %d but the store durably holds position index %s", e.Ent, id.Idx, have))
				// the same event is C03's second clause: a crash right now reopens the source at
				// the stored position although the upstream may already have discarded up to here
				w.violate("C03", "upstream-told-beyond-durable", fmt.Sprintf("source %s was told that record %d is safe to discard while the store durably holds position index %s: a crash at this instant reopens the source behind what the upstream was told to discard", e.Ent, id.Idx, have))
			}
		}
	case "DST_WRITE":
		stamps := strings.Split(e.Note, ";")
		for i, id := range e.IDs {
			lk := leafKey{Dst: e.Ent, Src: id.Src, Idx: id.Idx, N: id.N, Path: id.Path}
			if _, dup := o.written[lk]; dup && !hostileSrc {
				w.violate("C05", "duplicate-write-in-run", fmt.Sprintf("destination %s received %s twice for the same delivery", e.Ent, id))
				if !hostile && w.cfg.accountingChain(id.Src, e.Ent) {
					// C08: with filtering / splitting / erroring / short-answering / conditional
					// processors on the way, every leaf still reaches the destination exactly once
					w.violate("C08", "leaf-written-twice", fmt.Sprintf("destination %s received %s twice for the same delivery although the scripted processor chain produces it once", e.Ent, id))
				}
			}
			o.written[lk] = e.Seq
			// C05 order per (destination session, source)
			k := sessKey(e.Ent, e.Sess) + "|" + id.Src
			cur := [2]string{fmt.Sprintf("%09d", id.Idx), id.Path}
			if last, ok := o.lastWrite[k]; ok && !hostileSrc {
				if cur[0] < last[0] || (cur[0] == last[0] && !pathLess(last[1], cur[1])) {
					w.violate("C05", "write-out-of-order", fmt.Sprintf("destination %s session %d: record %s of source %s written after %s/%s", e.Ent, e.Sess, id, id.Src, strings.TrimLeft(last[0], "0"), last[1]))
				}
			}
			o.lastWrite[k] = cur
			// C09: content and position of a written record belong to the same source record
			if id.Idx >= 0 && i < len(e.Pos) {
				if sys := w.srcs[id.Src]; sys != nil {
					if pi, ok := sys.posIndex[unhex(e.Pos[i])]; ok && pi != id.Idx {
						w.violate("C09", "result-misaligned", fmt.Sprintf("destination %s received the content of record %s under the position of record %d: a result was attached to the wrong record", e.Ent, id, pi))
					}
				}
			}
			// C08/C13: exactly the expected leaf set, handled by exactly the expected processors
			if !hostile && id.Idx >= 0 {
				m, _ := w.cfg.expectedLeafStamps(delivKey{id.Src, id.Idx, id.N}, e.Ent)
				want, found := m[id.Path]
				if !found {
					w.violate("C08", "unexpected-write", fmt.Sprintf("destination %s received %s which the scripted processor chain does not produce for it", e.Ent, id))
				} else if i < len(stamps) {
					got := stampProcs(stamps[i])
					if strings.Join(got, ",") != strings.Join(want, ",") {
						w.violate("C09", "wrong-processors-applied", fmt.Sprintf("record %s reached %s processed by %v, expected %v (conditions decide which processors touch a record; each exactly once)", id, e.Ent, got, want))
					}
				}
			}
		}
	case "DST_ACK":
		for _, id := range e.IDs {
			lk := leafKey{Dst: e.Ent, Src: id.Src, Idx: id.Idx, N: id.N, Path: id.Path}
			if e.OK {
				o.confirmed[lk] = e.Seq
			} else {
				o.nacked[lk] = e.Seq
				w.probe("dst-nack")
			}
		}
	case "DLQ_WRITE":
		for _, id := range e.IDs {
			D := delivKey{id.Src, id.Idx, id.N}
			if !e.OK {
				w.violate("C07", "dlq-record-without-original", fmt.Sprintf("DLQ %s received a record that does not embed an original source record", e.Ent))
				continue
			}
			o.dlqWrites[D]++
			// exactly once: a further write is legitimate only after the previous
			// attempt is known to have failed (rejected, or its confirmation was lost)
			// (narrow relaxation: once a fault was injected on this DLQ's own stream the engine
			// may legitimately retry a write whose outcome it could not learn; the clause is
			// suspended for that DLQ session only - acks still need a confirmed write, C01)
			if st := o.dlqState[D]; (st == "pending" || st == "ok") && !hostile && !o.dlqFaulted[sessKey(e.Ent, e.Sess)] {
				w.violate("C07", "dlq-duplicate", fmt.Sprintf("record %s/%d (delivery %d) was written to the DLQ again (write #%d) while the previous write was %s", id.Src, id.Idx, id.N, o.dlqWrites[D], st))
			}
			o.dlqState[D] = "pending"
			o.dlqPending[e.Ent] = append(o.dlqPending[e.Ent], D)
			if e.Err == "" || e.Note == "" {
				w.violate("C07", "dlq-missing-cause", fmt.Sprintf("DLQ record for %s/%d carries error=%q failing-component=%q", id.Src, id.Idx, e.Err, e.Note))
			}
			w.probe("dlq-write")
		}
	case "DLQ_ACK":
		for _, id := range e.IDs {
			D := delivKey{id.Src, id.Idx, id.N}
			if e.OK {
				o.dlqOK[D] = e.Seq
				o.dlqState[D] = "ok"
			} else {
				o.dlqFailed[D] = e.Seq
				o.dlqState[D] = "failed"
				w.probe("dlq-nack")
			}
		}
	case "DST_WRITE_ERR":
		o.dlqFaulted[sessKey(e.Ent, e.Sess)] = true
	case "DST_ACK_ERR", "DST_TEARDOWN":
		if e.Kind == "DST_ACK_ERR" {
			o.dlqFaulted[sessKey(e.Ent, e.Sess)] = true
		}
		// confirmation of every write still pending on this DLQ session is lost
		for _, D := range o.dlqPending[e.Ent] {
			if o.dlqState[D] == "pending" {
				o.dlqState[D] = "failed"
			}
		}
		delete(o.dlqPending, e.Ent)
		if e.Kind == "DST_TEARDOWN" && e.Sess > 0 {
			o.teardowns[e.Ent]++ // (a teardown of a plugin that never opened a session pairs with nothing)
		}
	case "DB_SET", "TX_COMMIT":
		if e.Kind == "DB_SET" && strings.HasPrefix(e.Ent, "pipeline:instance:") {
			// a failed status write leaves the stored status behind reality (narrow relaxation)
			o.statusWriteFailed = !e.OK
			if !e.OK {
				o.statusWriteFailedEver = true
			}
		}
		if e.OK {
			o.onDurableChange(w, e)
		}
	case "DST_OPEN":
		o.opens[e.Ent]++
	}
}

func pathLess(a, b string) bool {
	if a == b {
		return false
	}
	as, bs := strings.Split(a, "/"), strings.Split(b, "/")
	for i := 0; i < len(as) && i < len(bs); i++ {
		if as[i] != bs[i] {
			ai, _ := strconv.Atoi(strings.TrimLeft(as[i], "h"))
			bi, _ := strconv.Atoi(strings.TrimLeft(bs[i], "h"))
			return ai < bi
		}
	}
	return len(as) < len(bs)
}

// onDurableChange evaluates C02 (ii)+(iii) after every successful durable write.
func (o *Oracles) onDurableChange(w *World, e *Event) {
	for _, sc := range w.cfg.Sources {
		pos, exists, has := w.db.durablePosition(sc.ID)
		if !exists {
			continue
		}
		sys := w.srcs[sc.ID]
		if !has {
			if o.durSet[sc.ID] {
				w.violate("C02", "durable-position-emptied", fmt.Sprintf("stored position of source %s became empty after holding index %d", sc.ID, o.durIdx[sc.ID]))
			}
			continue
		}
		idx, ok := sys.posIndex[string(pos)]
		if !ok {
			w.violate("C02", "durable-position-unknown", fmt.Sprintf("stored position of source %s is %q which the source never produced", sc.ID, pos))
			continue
		}
		if o.durSet[sc.ID] && idx < o.durIdx[sc.ID] && !w.cfg.HostileSrc {
			w.violate("C02", "durable-position-regressed", fmt.Sprintf("stored position of source %s went back from index %d to %d", sc.ID, o.durIdx[sc.ID], idx))
		}
		if !o.durSet[sc.ID] || idx != o.durIdx[sc.ID] {
			// (iii) everything at or before the stored position has been handled
			for i := 0; i <= idx; i++ {
				if !o.isHandled(w, sc.ID, i) {
					w.violate("C02", "durable-past-unhandled", fmt.Sprintf("store committed position index %d for source %s but record %d is not confirmed by all destinations, dead-lettered or filtered", idx, sc.ID, i))
					// the position of a record becomes durable only because the engine acknowledged the
					// record internally: for a record no destination chain has confirmed (and that was not
					// dead-lettered or filtered) that acknowledgment came too early - C01's subject,
					// seen here before the plugin is told
					w.violate("C03", "durable-position-past-unhandled", fmt.Sprintf("the store holds position index %d for source %s although record %d was never confirmed by all destinations, dead-lettered or filtered: a crash at this instant reopens the source past it (the record is skipped)", idx, sc.ID, i))
					w.violate("C01", "position-committed-before-confirmation", fmt.Sprintf("the engine acknowledged record %d of source %s (its position, index %d, reached the store) although the record is not confirmed by all destinations, dead-lettered or filtered", i, sc.ID, idx))
					if o.ctl.forceStopIssued {
						w.violate("C12", "force-stop-committed-unhandled", fmt.Sprintf("after a force stop the store committed position index %d for source %s but record %d was never handled: the next start skips it", idx, sc.ID, i))
					}
					// C07: if the record is one the DLQ itself refused, the failed record was given up:
					// neither delivered nor dead-lettered, yet the pipeline moved past it
					for n := 1; n <= sys.sessions; n++ {
						if o.dlqState[delivKey{sc.ID, i, n}] == "failed" && !w.cfg.Hostile {
							w.violate("C07", "dlq-rejected-record-passed-over", fmt.Sprintf("record %s/%d was rejected by a destination and its dead-letter write was refused too, yet position index %d beyond it was committed: the failed record is in neither a destination nor the DLQ", sc.ID, i, idx))
							break
						}
					}
					break
				}
			}
		}
		o.durSet[sc.ID] = true
		o.durIdx[sc.ID] = idx
	}
	if st, errText, ok := w.db.durableStatus(PipelineID); ok {
		if len(o.statusHist) == 0 || o.statusHist[len(o.statusHist)-1] != st {
			o.statusHist = append(o.statusHist, st)
			w.log(Event{Kind: "STATUS", Ent: PipelineID, N: st, Note: statusName(st)})
			if strings.Contains(errText, "nack threshold exceeded") {
				o.onThresholdStop(w, errText)
			}
		}
	}
}

// quiescent: every source record has been acked at some time, or the pipeline is terminal.
func (o *Oracles) quiescent(w *World) bool {
	if w.gatesParked() > 0 {
		return false // a preempted goroutine of the engine still has work to do
	}
	if st, ok := o.effStatus(w); ok && st != 1 && st != 5 {
		return true
	}
	return o.allDrained(w)
}

// effStatus is the stored status, except after a failed status write: then the store may
// never catch up and the engine's in-memory status is what drives the plan (never an oracle).
func (o *Oracles) effStatus(w *World) (int, bool) {
	st, _, ok := w.db.durableStatus(PipelineID)
	if o.statusWriteFailedEver && w.memStatus != nil {
		if ms := w.memStatus(); ms != 0 {
			return ms, true
		}
	}
	return st, ok
}

// allDrained: every source has either seen all of its records acknowledged at some time, or
// its live session has nothing left to emit and nothing outstanding.
func (o *Oracles) allDrained(w *World) bool {
	for id, s := range w.srcs {
		if s.ackedMax >= len(s.recs) {
			continue
		}
		if s.sess == nil || s.sess.closed || s.sess.inc != w.inc || s.sess.next < len(s.recs) {
			return false
		}
		if st := o.sess[sessKey(id, s.sess.n)]; st == nil || st.acked < len(st.emitted) {
			return false
		}
	}
	return true
}

// checkDrained evaluates C06's postconditions at the moment a graceful stop-and-wait returned nil.
func (o *Oracles) checkDrained(w *World, how string) {
	// every record of the run that reached a destination or the DLQ has a final outcome and an ack
	for lk := range o.written {
		D := delivKey{lk.Src, lk.Idx, lk.N}
		if !o.currentRunDelivery(w, D) {
			continue
		}
		_, c := o.confirmed[lk]
		_, n := o.nacked[lk]
		if !c && !n {
			w.violate(o.drainProp(), "stop-left-write-unconfirmed", fmt.Sprintf("%s returned but %s/%d written to %s has no outcome", how, lk.Src, lk.Idx, lk.Dst))
			return
		}
		if _, acked := o.ackedDeliveries[D]; !acked {
			w.violate(o.drainProp(), "stop-left-record-unacked", fmt.Sprintf("%s returned nil but record %s/%d (delivery %d) reached destination %s and was never acknowledged to its source", how, lk.Src, lk.Idx, lk.N, lk.Dst))
			return
		}
	}
	for D := range o.dlqWrites {
		if !o.currentRunDelivery(w, D) {
			continue
		}
		if _, acked := o.ackedDeliveries[D]; !acked {
			w.violate(o.drainProp(), "stop-left-record-unacked", fmt.Sprintf("%s returned nil but dead-lettered record %s/%d was never acknowledged to its source", how, D.Src, D.Idx))
			return
		}
	}
	for _, sc := range w.cfg.Sources {
		sys := w.srcs[sc.ID]
		if sys.sess == nil {
			continue
		}
		s := o.sess[sessKey(sc.ID, sys.sess.n)]
		if s == nil {
			continue
		}
		if s.open {
			w.violate(o.drainProp(), "stop-left-source-open", fmt.Sprintf("%s returned nil but source %s session %d was not torn down", how, sc.ID, sys.sess.n))
		}
		// durable position equals the last acked record
		if s.acked > 0 {
			last := s.emitted[s.acked-1]
			if !o.durSet[sc.ID] || o.durIdx[sc.ID] != last {
				w.violate(o.drainProp(), "stop-position-not-last-ack", fmt.Sprintf("%s returned nil: source %s last acked record %d but the store holds index %d (set=%v)", how, sc.ID, last, o.durIdx[sc.ID], o.durSet[sc.ID]))
			}
		}
	}
	o.checkTeardownPairing(w, how)
}

func (o *Oracles) currentRunDelivery(w *World, D delivKey) bool {
	sys := w.srcs[D.Src]
	return sys != nil && sys.sess != nil && sys.sess.n == D.N
}

func (o *Oracles) checkTeardownPairing(w *World, how string) {
	ents := make([]string, 0, len(o.opens))
	for e := range o.opens {
		ents = append(ents, e)
	}
	sort.Strings(ents)
	for _, e := range ents {
		if o.opens[e] != o.teardowns[e] {
			w.violate(o.drainProp(), "teardown-mismatch", fmt.Sprintf("%s returned nil: connector %s was opened %d times and torn down %d times", how, e, o.opens[e], o.teardowns[e]))
		}
	}
	for id, ps := range w.procs {
		for gen, n := range ps.opened {
			if ps.torndown[gen] < n || ps.torndown[gen] > n+ps.failedOpens[gen] {
				w.violate(o.drainProp(), "teardown-mismatch", fmt.Sprintf("%s returned nil: processor %s generation %d was opened %d times and torn down %d times", how, id, gen, n, ps.torndown[gen]))
			}
		}
	}
}

// stopRefused: a graceful stop reported an error. In a healthy world the only
// legitimate reasons are "not running" style refusals (the run had already ended)
// or a concurrent stop already in progress.
func (o *Oracles) stopRefused(w *World, how string, err error) {
	w.probe("stop-refused")
	if !w.cfg.Healthy {
		return
	}
	msg := err.Error()
	for _, ok := range []string{"not running", "stop already triggered", "ErrPipelineNotRunning"} {
		if strings.Contains(msg, ok) {
			return
		}
	}
	w.violate("C06", "healthy-stop-failed", fmt.Sprintf("%s of a healthy pipeline failed: %s", how, errText(err)))
}

func (o *Oracles) finalChecks(w *World) {
	o.finalControlChecks(w)
	// C11 liveness: the run was abandoned because simulated time ran out while nothing
	// was parked at any seam (every plugin and store call had been served, no stall
	// fault) and the pipeline is still reported as running: the run can never end.
	idleMs := w.now() - w.now0()
	if !w.finished && w.stallCount() == 0 && w.worldParkedEnabled() == 0 && w.capReason == "time" && w.bootOK[w.inc] && idleMs > 30*60*1000 {
		st, _, ok := w.db.durableStatus(PipelineID)
		open := o.openSessions(w)
		owed := o.unackedEmitted(w)
		// C11: a control call that never returns although the world owes the engine nothing
		for cl, seq := range o.ctl.inFlight {
			note := o.ctl.callNote[cl]
			ms := st
			if w.memStatus != nil && w.memStatus() != 0 {
				ms = w.memStatus()
			}
			if strings.HasPrefix(note, "wait") && (st == 1 || st == 5 || ms == 1 || ms == 5) {
				continue // waiting for a pipeline that is (reported) alive is what wait does
			}
			w.violate("C11", "call-never-returns", fmt.Sprintf("control call %q (event #%d) has not returned after %d ms of simulated idleness; every plugin and store call has been served (stored status: %s)", strings.TrimSpace(note), seq, idleMs, statusName(st)))
			o.wedged(w, fmt.Sprintf("control call %q (event #%d) has not returned after %d ms of simulated idleness", strings.TrimSpace(note), seq, idleMs))
			if o.ctl.forceStopIssued && o.ctl.forceStopped && (strings.HasPrefix(note, "wait") || strings.HasPrefix(note, "forcestop")) {
				w.violate("C12", "force-stop-did-not-terminate", fmt.Sprintf("after a force stop that returned success, %q (event #%d) has not returned after %d ms of simulated idleness: the run does not terminate", strings.TrimSpace(note), seq, idleMs))
			}
			if strings.HasPrefix(note, "reconfigure") {
				w.violate("C13", "reconfigure-never-answered", fmt.Sprintf("live reconfigure request %q (event #%d) was neither applied nor refused: it has not returned after %d ms of simulated idleness", strings.TrimSpace(note), seq, idleMs))
			}
		}
		ms := st
		if w.memStatus != nil && w.memStatus() != 0 {
			ms = w.memStatus()
		}
		switch {
		case ok && (st == 2 || st == 3 || st == 4) && ms == st && len(open) > 0 && len(o.ctl.inFlight) == 0:
			w.violate("C11", "plugin-session-left-open", fmt.Sprintf("the pipeline is %s and nothing is in flight, yet plugin sessions %v opened by it were never torn down (idle for %d ms); the connectors are not released, the pipeline cannot be started again", statusName(st), open, idleMs))
		case ok && st == 1 && len(open) > 0 && !o.statusWriteFailedEver && w.worldParked() == 0:
			w.violate("C11", "run-never-ends", fmt.Sprintf("pipeline is still running with open plugin sessions %v after %d ms of simulated idleness; every plugin and store call has been served and no node is waiting for the outside world", open, idleMs))
			o.wedged(w, fmt.Sprintf("the pipeline is still running with open plugin sessions %v after %d ms of simulated idleness and no node is waiting for the outside world", open, idleMs))
			if o.ctl.forceStopIssued && o.ctl.forceStopped {
				w.violate("C12", "force-stop-did-not-terminate", fmt.Sprintf("a force stop returned success but the run never ended: plugin sessions %v are still open after %d ms of simulated idleness", open, idleMs))
			}
		case ok && st == 1 && len(open) > 0 && !o.statusWriteFailedEver && owed != "":
			w.violate("C10", "silent-stall", fmt.Sprintf("pipeline has been idle for %d ms while still reported running: %s; every plugin and store call has been served, the sources have nothing more to give and the destinations owe no acknowledgment", idleMs, owed))
			o.wedged(w, fmt.Sprintf("the pipeline has been idle for %d ms while still reported running (%s) although the destinations owe no acknowledgment", idleMs, owed))
		case ok && st == 5 && !o.statusWriteFailedEver:
			w.violate("C10", "recovery-never-resumes", fmt.Sprintf("pipeline is still recovering after %d ms of simulated idleness (max back-off %d ms); every plugin and store call has been served", idleMs, w.cfg.Recovery.MaxDelayMs))
		}
	}
	if w.cfg.Healthy && !w.finished {
		w.violate("C06", "stop-hang", fmt.Sprintf("healthy run did not complete: steps=%d sim=%dms notes=%v", w.step, w.now(), w.notes))
	}
}

// wedged: C09's "the engine neither panics nor hangs" - every reply the plugins owed has been
// given (nothing is parked at any seam, no stall fault is pending) and the engine still does
// not move. The same event is reported under C11 / C10 by the callers.
func (o *Oracles) wedged(w *World, what string) {
	w.violate("C09", "engine-wedged", "after every plugin and store call had been answered the engine hangs: "+what)
}

// openSessions lists plugin sessions of the live incarnation that were opened and not torn down.
func (o *Oracles) openSessions(w *World) []string {
	var out []string
	for id, sys := range w.srcs {
		if sys.sess != nil && !sys.sess.closed && sys.sess.inc == w.inc {
			out = append(out, id)
		}
	}
	for id, sys := range w.dsts {
		if sys.sess != nil && !sys.sess.closed && sys.sess.inc == w.inc {
			out = append(out, id)
		}
	}
	sort.Strings(out)
	return out
}

func (o *Oracles) drainProp() string {
	if o.drainAs != "" {
		return o.drainAs
	}
	return "C06"
}

func unhex(h string) string {
	b, _ := hex.DecodeString(h)
	return string(b)
}

// stampProcs extracts the processor ids from a stamps string "p1:gen:rev,p2:gen:rev,".
func stampProcs(s string) []string {
	var out []string
	for _, f := range strings.Split(s, ",") {
		if f == "" {
			continue
		}
		out = append(out, strings.SplitN(f, ":", 2)[0])
	}
	return out
}

// unackedEmitted describes records of the live sessions that were handed to the engine and never acknowledged.
func (o *Oracles) unackedEmitted(w *World) string {
	for _, sc := range w.cfg.Sources {
		sys := w.srcs[sc.ID]
		if sys == nil || sys.sess == nil || sys.sess.closed || sys.sess.inc != w.inc {
			continue
		}
		s := o.sess[sessKey(sc.ID, sys.sess.n)]
		if s != nil && s.acked < len(s.emitted) {
			return fmt.Sprintf("source %s session %d emitted %d records and received acknowledgments for %d", sc.ID, sys.sess.n, len(s.emitted), s.acked)
		}
	}
	return ""
}
