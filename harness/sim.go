package harness

// Deterministic simulator core: world, scheduler, parking, event log, choices.
//
// One World = one simulated run = one synctest bubble. Every call the engine makes
// across a seam (plugin, store, client control call, gate) parks the calling
// goroutine in World.park. The scheduler goroutine (the bubble's root) waits for
// quiescence, looks at the set of parked calls and lets the PRNG (or a replay file)
// pick exactly one.

import (
	"context"
	"fmt"
	"io"
	"math/rand/v2"
	"sort"
	"strings"
	"sync"
	"testing/synctest"
	"time"
)

// Choice is one scheduler decision. The list of choices is the schedule.
type Choice struct {
	K string `json:"k"`           // stable key of the released item ("T" = advance time)
	F string `json:"f,omitempty"` // fault applied to it ("" = none)
	A int    `json:"a,omitempty"` // argument handed to the released call (batch size, quantum, ...)
}

type decision struct {
	fault  string
	arg    int
	poison bool
}

type parked struct {
	key          string
	kind         string
	ent          string
	inc          int
	ch           chan decision
	enabled      func() bool
	faults       []string
	since        time.Time
	stalled      bool
	stalledUntil time.Time
	// liveness accounting: true when the call is one the "responsive world"
	// promise covers (everything except client waits).
	world bool
	// gates only: the goroutine stays preempted until the scheduler has taken this many
	// further steps (or nothing else can run)
	readyStep int
}

// Event is one externally visible event at a seam.
type Event struct {
	Seq  int      `json:"seq"`
	T    int64    `json:"t_ms"`
	Kind string   `json:"kind"`
	Ent  string   `json:"ent,omitempty"`
	Inc  int      `json:"inc,omitempty"`
	Sess int      `json:"sess,omitempty"`
	IDs  []RecID  `json:"ids,omitempty"`
	Pos  []string `json:"pos,omitempty"`
	OK   bool     `json:"ok,omitempty"`
	Err  string   `json:"err,omitempty"`
	Note string   `json:"note,omitempty"`
	N    int      `json:"n,omitempty"`
}

func (e Event) String() string {
	var b strings.Builder
	fmt.Fprintf(&b, "#%d t=%dms %s", e.Seq, e.T, e.Kind)
	if e.Ent != "" {
		fmt.Fprintf(&b, " %s", e.Ent)
	}
	if e.Inc != 0 {
		fmt.Fprintf(&b, " inc=%d", e.Inc)
	}
	if e.Sess != 0 {
		fmt.Fprintf(&b, " sess=%d", e.Sess)
	}
	if len(e.IDs) > 0 {
		fmt.Fprintf(&b, " ids=%v", e.IDs)
	}
	if len(e.Pos) > 0 {
		fmt.Fprintf(&b, " pos=%v", e.Pos)
	}
	if e.OK {
		b.WriteString(" ok")
	}
	if e.Err != "" {
		fmt.Fprintf(&b, " err=%q", e.Err)
	}
	if e.N != 0 {
		fmt.Fprintf(&b, " n=%d", e.N)
	}
	if e.Note != "" {
		fmt.Fprintf(&b, " %s", e.Note)
	}
	return b.String()
}

// Violation is a property violation found by an oracle.
type Violation struct {
	Prop  string `json:"prop"`
	Class string `json:"class"` // stable class name used by the minimiser
	Msg   string `json:"msg"`
	Seq   int    `json:"seq"`
	Step  int    `json:"step"`
}

type World struct {
	gateDelay    int           // set by the gate hook right before it parks: scheduler steps the preemption lasts
	gateWaiting  bool          // some goroutine is still preempted at a gate (set by enabledList)
	gateParkedN  int           // goroutines parked at a gate at the beginning of this step
	gateTimeStep bool          // only timers can make progress while a goroutine is preempted, and the budget allows it
	gateTimeUsed time.Duration // simulated time that has passed so far while goroutines were preempted
	wake         chan struct{} // a call has just parked (ends the scheduler's sleep)
	gates        *gateState
	mu           sync.Mutex
	cfg          *Config
	rng          *rand.Rand

	parked   map[string]*parked
	frozen   []*parked // calls of dead incarnations, never released (until poison)
	keyCount map[string]int

	events  []Event
	choices []Choice

	follow    []Choice
	followPos int
	strict    bool // strict replay: divergence is an error
	diverged  string

	step     int
	inc      int
	dead     bool
	finished bool
	start    time.Time

	faultsLeft  int
	faultFired  map[string]int
	probes      map[string]int
	kindSeq     []byte // compact trace for interleaving hash
	deviations  int
	stepsServed int

	violations []Violation
	stopOnViol bool

	// online oracle state
	or *Oracles

	// simulated systems
	srcs  map[string]*SrcSys
	dsts  map[string]*DstSys
	procs map[string]*ProcSys
	db    *SimStore

	// priorities for PCT-like policy
	prio map[string]int

	lastProgressStep int
	idleSince        time.Time
	idle             bool

	started        bool
	procNewCount   int  // sequential families: NewProcessor calls of the current call ...
	procNewFailAt  int  // ... and which of them fails (-1/0 = none)
	direct         bool // sequential families: seam calls are served at once, in program order
	capReason      string
	bootedInc      int
	bootOK         map[int]bool
	memStatus      func() int // in-memory status of the pipeline in the live incarnation (0 = unknown)
	drawTrace      []uint64
	clientsRunning int
	notes          []string
}

func NewWorld(cfg *Config, follow []Choice, strict bool) *World {
	w := &World{
		cfg:        cfg,
		rng:        rand.New(rand.NewPCG(uint64(cfg.Seed), 0x5eed5eed^uint64(cfg.Seed)*31)),
		parked:     map[string]*parked{},
		wake:       make(chan struct{}, 1),
		keyCount:   map[string]int{},
		follow:     follow,
		strict:     strict,
		faultsLeft: cfg.MaxFaults,
		faultFired: map[string]int{},
		probes:     map[string]int{},
		srcs:       map[string]*SrcSys{},
		dsts:       map[string]*DstSys{},
		procs:      map[string]*ProcSys{},
		prio:       map[string]int{},
		bootOK:     map[int]bool{},
		stopOnViol: true,
	}
	w.inc = 1
	return w
}

func (w *World) now() int64 { return time.Since(w.start).Milliseconds() }

// log appends an event and runs the online oracles on it. Never draws from the PRNG.
func (w *World) log(e Event) {
	w.mu.Lock()
	if w.dead {
		w.mu.Unlock()
		return
	}
	e.Seq = len(w.events) + 1
	e.T = w.now()
	w.events = append(w.events, e)
	if len(w.kindSeq) < 1<<16 {
		w.kindSeq = append(w.kindSeq, kindCode(e.Kind))
		w.kindSeq = append(w.kindSeq, entCode(e.Ent))
	}
	w.mu.Unlock()
	if w.or != nil {
		w.or.onEvent(w, &e)
	}
}

func kindCode(k string) byte {
	var h uint32 = 2166136261
	for i := 0; i < len(k); i++ {
		h = (h ^ uint32(k[i])) * 16777619
	}
	return byte(h ^ h>>8 ^ h>>16)
}
func entCode(k string) byte { return kindCode(k) }

func (w *World) probe(name string) {
	w.mu.Lock()
	w.probes[name]++
	w.mu.Unlock()
}

func (w *World) violate(prop, class, msg string) {
	w.mu.Lock()
	defer w.mu.Unlock()
	for _, v := range w.violations {
		if v.Prop == prop && v.Class == class {
			return // one per class per run
		}
	}
	w.violations = append(w.violations, Violation{Prop: prop, Class: class, Msg: msg, Seq: len(w.events), Step: w.step})
}

// hasOwnViolation: a violation of the property this run is looking for (any violation when
// no focus is set). A violation of another property does not end the run: what the focus
// property's oracles make of the consequences is what the check is after.
func (w *World) hasOwnViolation() bool {
	w.mu.Lock()
	defer w.mu.Unlock()
	for _, v := range w.violations {
		if w.cfg.Focus == "" || v.Prop == w.cfg.Focus || v.Prop == "HARNESS" {
			return true
		}
	}
	return false
}

func (w *World) hasViolationClass(class string) bool {
	w.mu.Lock()
	defer w.mu.Unlock()
	for _, v := range w.violations {
		if v.Class == class {
			return true
		}
	}
	return false
}

func (w *World) hasViolation() bool {
	w.mu.Lock()
	defer w.mu.Unlock()
	return len(w.violations) > 0
}

// park blocks the calling goroutine until the scheduler releases it.
// kind/ent identify the seam; inc is the incarnation the caller belongs to.
func (w *World) park(ctx context.Context, kind, ent string, inc int, enabled func() bool, faults ...string) decision {
	// (no gate inside the simulator's own parking code)
	defer simSetNoYield(simSetNoYield(true))
	w.mu.Lock()
	if w.dead {
		// the run is over: never let this goroutine touch the world again. It stays
		// blocked for ever (the bubble is abandoned; see RunOne). Running Goexit here
		// instead would execute the engine's deferred functions half-way through a
		// seam call (e.g. inside sync.Once), which is behaviour no real execution has.
		w.mu.Unlock()
		select {}
	}
	base := kind + ":" + ent
	if inc > 1 {
		base = fmt.Sprintf("%s@%d", base, inc)
	}
	w.keyCount[base]++
	p := &parked{
		key:     fmt.Sprintf("%s#%d", base, w.keyCount[base]),
		kind:    kind,
		ent:     ent,
		inc:     inc,
		ch:      make(chan decision, 1),
		enabled: enabled,
		faults:  faults,
		since:   time.Now(),
		world:   !strings.HasPrefix(kind, "cl."),
	}
	if w.direct {
		w.mu.Unlock()
		return decision{}
	}
	if kind == "gate" {
		p.readyStep = w.step + w.gateDelay
	}
	if w.or != nil && inc == w.inc {
		w.mu.Unlock()
		w.or.onPark(w, kind)
		w.mu.Lock()
	}
	if inc != 0 && inc != w.inc {
		// the incarnation this goroutine belongs to has crashed: frozen for ever
		w.frozen = append(w.frozen, p)
		w.mu.Unlock()
		<-p.ch // never sent to
		select {}
	}
	w.parked[p.key] = p
	w.mu.Unlock()
	select {
	case w.wake <- struct{}{}:
	default:
	}

	var done <-chan struct{}
	if ctx != nil {
		done = ctx.Done()
	}
	select {
	case d := <-p.ch:
		return d
	case <-done:
		if w.isDead() {
			select {}
		}
		w.mu.Lock()
		if _, still := w.parked[p.key]; still {
			delete(w.parked, p.key)
			w.mu.Unlock()
			return decision{fault: "ctx"}
		}
		w.mu.Unlock()
		// already released by the scheduler (or frozen by a crash): honour that
		return <-p.ch
	}
}

// crash freezes the current incarnation: every parked call of it is moved to the
// frozen list and will never be released.
func (w *World) crash() {
	w.mu.Lock()
	for k, p := range w.parked {
		if p.inc != 0 && p.inc == w.inc {
			w.frozen = append(w.frozen, p)
			delete(w.parked, k)
		}
	}
	w.inc++
	w.mu.Unlock()
}

var TraceDraws bool
var TraceEnabled io.Writer

type enabledItem struct {
	key string
	p   *parked
}

func (w *World) enabledList() []enabledItem {
	w.mu.Lock()
	defer w.mu.Unlock()
	items := make([]enabledItem, 0, len(w.parked)+1)
	w.gateParkedN = 0
	for k, p := range w.parked {
		if p.kind == "gate" {
			w.gateParkedN++
		}
		if p.stalled {
			if time.Now().Before(p.stalledUntil) {
				continue
			}
			p.stalled = false // the slow peer finally answers
		}
		items = append(items, enabledItem{k, p})
	}
	sort.Slice(items, func(i, j int) bool { return items[i].key < items[j].key })
	// evaluate predicates outside the sort, still under lock (predicates only read sim state)
	out := items[:0]
	var waiting *enabledItem
	for i, it := range items {
		if it.p.enabled != nil && !it.p.enabled() {
			continue
		}
		if it.p.kind == "gate" && it.p.readyStep > w.step {
			// still preempted; remember the one that comes back first
			if waiting == nil || it.p.readyStep < waiting.p.readyStep {
				waiting = &items[i]
			}
			continue
		}
		out = append(out, it)
	}
	w.gateWaiting = waiting != nil
	w.gateTimeStep = false
	if len(out) == 0 && waiting != nil {
		if w.gateTimeUsed < time.Duration(w.cfg.GateTimeMs)*time.Millisecond {
			// nothing else can run but timers: within the run's budget a preemption may last
			// long enough for them to fire (a goroutine that stays preempted while a whole run
			// fails, is torn down and finalized)
			w.gateTimeStep = true
			return out
		}
		// nothing else can run: the preempted goroutine is scheduled again now (beyond the
		// budget time does not pass while a goroutine is merely preempted)
		w0 := *waiting
		out = append(out, w0)
	}
	return out
}

var quanta = []time.Duration{
	time.Millisecond, 5 * time.Millisecond, 20 * time.Millisecond, 100 * time.Millisecond,
	300 * time.Millisecond, time.Second, 3 * time.Second, 15 * time.Second, time.Minute, 11 * time.Minute,
}

// Run is the scheduler loop. It must be called from the bubble's root goroutine.
func (w *World) Run() {
	w.idleSince = time.Now()
	for {
		synctest.Wait()
		if w.stopOnViol && w.hasOwnViolation() {
			return
		}
		w.mu.Lock()
		fin := w.finished
		w.mu.Unlock()
		if fin {
			return
		}
		if w.step >= w.cfg.MaxSteps {
			w.note("step cap reached")
			w.capReason = "steps"
			return
		}
		if time.Since(w.start) > w.cfg.MaxSimTime {
			w.note("sim time cap reached")
			w.capReason = "time"
			return
		}
		items := w.enabledList()
		w.step++
		// re-pin the runtime's random sequence at every step: draws made by lazily
		// initialised process-wide state (first run only) cannot shift later steps
		simSetPinRand(mix64(uint64(w.cfg.Seed)*0x9e3779b97f4a7c15+uint64(w.step)*0xbf58476d1ce4e5b9) | 1)
		if TraceDraws {
			w.drawTrace = append(w.drawTrace, simGetPinCount())
		}
		if TraceEnabled != nil {
			ks := make([]string, len(items))
			for i, it := range items {
				ks[i] = it.key
			}
			fmt.Fprintf(TraceEnabled, "seed=%d step=%d ev=%d enabled=%v\n", w.cfg.Seed, w.step, len(w.events), ks)
		}
		ch := w.choose(items)
		if w.diverged != "" {
			return
		}
		w.choices = append(w.choices, ch)
		if ch.K == "T" {
			if w.gateWaiting {
				w.gateTimeUsed += quanta[ch.A%len(quanta)]
			}
			w.sleep(quanta[ch.A%len(quanta)])
			continue
		}
		w.mu.Lock()
		p := w.parked[ch.K]
		delete(w.parked, ch.K)
		w.mu.Unlock()
		if p == nil {
			w.diverged = "internal: chosen key vanished: " + ch.K
			return
		}
		if ch.F == "stall" || ch.F == "db.stall" {
			// declared fault: the call is never served; only its context can end it
			w.mu.Lock()
			p.stalled = true
			// an unresponsive peer: not served for a long (simulated) while; a call with a
			// context ends earlier when that context is cancelled (force stop, teardown)
			p.stalledUntil = time.Now().Add(time.Duration(30+ch.A%600) * time.Second)
			w.parked[ch.K] = p
			w.faultFired[ch.F]++
			w.mu.Unlock()
			continue
		}
		if ch.F != "" {
			w.mu.Lock()
			w.faultFired[ch.F]++
			w.mu.Unlock()
		}
		w.stepsServed++
		p.ch <- decision{fault: ch.F, arg: ch.A}
	}
}

// sleep lets simulated time pass for at most q. A call that parks meanwhile (a timer of the
// engine fired and its goroutine reached a seam or a gate) ends the sleep at that very
// instant: the scheduler sees it at the time it happened, not at the end of the quantum.
func (w *World) sleep(q time.Duration) {
	select {
	case <-w.wake:
	default:
	}
	t := time.NewTimer(q)
	select {
	case <-t.C:
	case <-w.wake:
		t.Stop()
	}
}

func (w *World) note(s string) {
	w.mu.Lock()
	w.notes = append(w.notes, s)
	w.mu.Unlock()
}

// choose picks the next item: from the replay file if one is being followed,
// otherwise from the PRNG under the run's scheduling policy.
func (w *World) choose(items []enabledItem) Choice {
	if w.followPos < len(w.follow) {
		c := w.follow[w.followPos]
		w.followPos++
		if c.K == "T" {
			return c
		}
		for _, it := range items {
			if it.key == c.K {
				return c
			}
		}
		if w.strict {
			keys := make([]string, len(items))
			for i, it := range items {
				keys[i] = it.key
			}
			w.diverged = fmt.Sprintf("replay divergence at step %d: %q not enabled (enabled: %v)", w.step, c.K, keys)
			return c
		}
		// guide mode: fall through to the PRNG
	}
	arg := w.rng.IntN(1 << 16)
	// advance time?
	if len(items) == 0 && w.gateTimeStep {
		return Choice{K: "T", A: arg % 3}
	}
	if len(items) == 0 {
		// nothing to serve: time must pass. Escalate the quantum while idle.
		if !w.idle {
			w.idle = true
			w.idleSince = time.Now()
		}
		idleFor := time.Since(w.idleSince)
		qi := 0
		switch {
		case idleFor > 10*time.Minute:
			qi = 9
		case idleFor > time.Minute:
			qi = 8
		case idleFor > 10*time.Second:
			qi = 7
		case idleFor > time.Second:
			qi = 5
		case idleFor > 100*time.Millisecond:
			qi = 3
		default:
			qi = 1
		}
		return Choice{K: "T", A: qi}
	}
	w.idle = false
	// responsive world: a served-world call never waits longer than ~1 s of simulated time
	var overdue []enabledItem
	for _, it := range items {
		if it.p.world && time.Since(it.p.since) > 700*time.Millisecond {
			overdue = append(overdue, it)
		}
	}
	pT := w.cfg.TimeAdvancePct
	for _, it := range items {
		if it.p.kind == "gate" {
			pT = 0 // a goroutine waits at a gate: a preemption is short, time does not pass
			break
		}
	}
	if w.gateWaiting {
		pT = 0
	}
	if len(overdue) == 0 && w.rng.IntN(100) < pT {
		// small quanta only while calls are parked (keeps the world responsive)
		return Choice{K: "T", A: arg % 5}
	}
	pool := items
	if len(overdue) > 0 {
		pool = overdue
	}
	var it enabledItem
	switch w.cfg.Policy {
	case "prio":
		best := -1
		for i, c := range pool {
			pk := c.p.kind + ":" + c.p.ent
			pr, ok := w.prio[pk]
			if !ok {
				pr = w.rng.IntN(1000)
				w.prio[pk] = pr
			}
			if best < 0 || pr > w.prio[pool[best].p.kind+":"+pool[best].p.ent] {
				best = i
			}
		}
		// occasional priority change point
		if w.rng.IntN(100) < 4 {
			pk := pool[best].p.kind + ":" + pool[best].p.ent
			w.prio[pk] = w.rng.IntN(1000)
		}
		it = pool[best]
	case "first":
		it = pool[0]
		if w.rng.IntN(100) < w.cfg.DeviatePct {
			it = pool[w.rng.IntN(len(pool))]
			w.deviations++
		}
	default:
		it = pool[w.rng.IntN(len(pool))]
	}
	c := Choice{K: it.key, A: arg}
	// fault decision
	if w.faultsLeft > 0 && len(it.p.faults) > 0 && !w.db.passthrough {
		for _, f := range it.p.faults {
			pct, ok := w.cfg.Faults[f]
			if !ok || pct <= 0 {
				continue
			}
			if f == "db.err" && w.cfg.FaultOnlyKeys != "" && !strings.HasPrefix(it.p.ent, w.cfg.FaultOnlyKeys) {
				continue
			}
			if w.rng.IntN(1000) < pct {
				c.F = f
				w.faultsLeft--
				break
			}
		}
	}
	return c
}

// endRun marks the world dead. Goroutines still parked stay parked for ever; the
// bubble is abandoned and RunOne recovers synctest's "blocked goroutines remain" panic.
func (w *World) endRun() {
	w.mu.Lock()
	w.dead = true
	w.mu.Unlock()
}

func (w *World) isDead() bool {
	w.mu.Lock()
	defer w.mu.Unlock()
	return w.dead
}

// gatesParked: goroutines of the engine that are preempted right now (as counted by the
// scheduler at the beginning of this step; read by trigger predicates, which run under w.mu).
func (w *World) gatesParked() int { return w.gateParkedN }

func (w *World) stallCount() int {
	w.mu.Lock()
	defer w.mu.Unlock()
	return w.faultFired["stall"] + w.faultFired["db.stall"]
}

// worldParked counts parked seam calls of the live incarnation (client waits excluded).
func (w *World) worldParked() int {
	w.mu.Lock()
	defer w.mu.Unlock()
	n := 0
	for _, p := range w.parked {
		if p.world {
			n++
		}
	}
	return n
}

func mix64(x uint64) uint64 {
	x ^= x >> 30
	x *= 0xbf58476d1ce4e5b9
	x ^= x >> 27
	x *= 0x94d049bb133111eb
	x ^= x >> 31
	return x
}

// worldParkedEnabled counts parked seam calls the world could serve right now.
func (w *World) worldParkedEnabled() int {
	w.mu.Lock()
	defer w.mu.Unlock()
	n := 0
	for _, p := range w.parked {
		if p.world && !p.stalled && (p.enabled == nil || p.enabled()) {
			n++
		}
	}
	return n
}
