package harness

import (
	"fmt"
	"math/rand/v2"
	"os"
	"time"
)

// Config is the complete, explicit description of one simulated run. It is drawn
// from the seed by GenConfig and stored verbatim in replay files so the minimiser
// can edit it.
type Config struct {
	Seed   int64  `json:"seed"`
	Family string `json:"family"`          // which generator produced it
	Focus  string `json:"focus,omitempty"` // property whose aspects the generator emphasises
	Engine string `json:"engine"`          // v1 | v2

	Sources   []SrcCfg  `json:"sources"`
	Dests     []DstCfg  `json:"dests"`
	PipeProcs []ProcCfg `json:"pipe_procs,omitempty"`
	DLQ       DLQCfg    `json:"dlq"`

	PersistDelayMs int `json:"persist_delay_ms"`
	PersistBundle  int `json:"persist_bundle"`

	Recovery RecoveryCfg `json:"recovery"`

	Policy         string         `json:"policy"` // uniform | prio | first
	TimeAdvancePct int            `json:"time_pct"`
	DeviatePct     int            `json:"deviate_pct,omitempty"`
	Faults         map[string]int `json:"faults,omitempty"` // fault kind -> per-mille per eligible release
	MaxFaults      int            `json:"max_faults"`
	ParkReads      bool           `json:"park_reads,omitempty"`

	MaxSteps   int           `json:"max_steps"`
	MaxSimTime time.Duration `json:"max_sim_time"`

	Plan []Action `json:"plan"`

	ImportChain   []ImpPipe `json:"import_chain,omitempty"`
	ImportViaPlan bool      `json:"import_via_plan,omitempty"`

	ApiOps               []ApiOp `json:"api_ops,omitempty"`
	ApiConfigProvisioned bool    `json:"api_config_provisioned,omitempty"`

	Scenario      string `json:"scenario,omitempty"`        // control families: the one root cause / history class of this run
	FaultOnlyKeys string `json:"fault_only_keys,omitempty"` // db.err is injected only on keys with this prefix
	Hostile       bool   `json:"hostile,omitempty"`         // some plugin answers with hostile shapes
	HostileSrc    bool   `json:"hostile_src,omitempty"`     // ... including sources (positions ambiguous)
	// Healthy: no injected faults, every outcome tolerated: exact drain / liveness oracles apply.
	Healthy           bool   `json:"healthy,omitempty"`
	GatePermille      int    `json:"gate_permille,omitempty"`       // chance (per mille) that a channel/mutex operation of the engine parks at a gate
	MaxGates          int    `json:"max_gates,omitempty"`           // gate parks per run
	GateMaxDelay      int    `json:"gate_max_delay,omitempty"`      // a gate park lasts up to this many scheduler steps
	GateBoost         []int  `json:"gate_boost,omitempty"`          // site classes (site id mod 16) with a boosted chance
	GateBoostPermille int    `json:"gate_boost_permille,omitempty"` // that chance
	GateScope         string `json:"gate_scope,omitempty"`          // "control": only operations of the service (control-plane) code are preemption points
	DstLinger         bool   `json:"dst_linger,omitempty"`         // a destination write may stay "in the call" after the plugin has the records: acknowledgments can overtake the return of Write
	GateTimeMs        int    `json:"gate_time_ms,omitempty"`        // simulated time that may pass in total while goroutines stay preempted
}

type SrcCfg struct {
	ID         string    `json:"id"`
	NRec       int       `json:"nrec"`
	MaxBatch   int       `json:"max_batch"`
	Pruning    bool      `json:"pruning,omitempty"`
	HostilePct int       `json:"hostile_pct,omitempty"`
	Procs      []ProcCfg `json:"procs,omitempty"`
}

type DstCfg struct {
	ID          string    `json:"id"`
	NackPct     int       `json:"nack_pct,omitempty"`
	MaxAckBatch int       `json:"max_ack_batch"`
	HoldBatch   int       `json:"hold_batch,omitempty"` // batching destination: acks only once this many writes are pending, or when told to stop
	HostilePct  int       `json:"hostile_pct,omitempty"`
	Procs       []ProcCfg `json:"procs,omitempty"`
}

type ProcCfg struct {
	ID      string `json:"id"`
	Workers int    `json:"workers,omitempty"`
	Cond    string `json:"cond,omitempty"`
	// outcome script, per-cent of records (hash based, deterministic per record)
	ModifyPct int  `json:"modify_pct,omitempty"`
	FilterPct int  `json:"filter_pct,omitempty"`
	ErrorPct  int  `json:"error_pct,omitempty"`
	SplitPct  int  `json:"split_pct,omitempty"`
	ShortPct  int  `json:"short_pct,omitempty"` // v2: return fewer results than inputs for this call
	Hostile   int  `json:"hostile_pct,omitempty"`
	OpenFail  int  `json:"open_fail,omitempty"` // generation whose Open fails (0 = none)
	Stuck     bool `json:"stuck,omitempty"`     // never makes progress: every result is "retry"
}

type DLQCfg struct {
	WindowSize int `json:"window_size"`
	Threshold  int `json:"threshold"`
	NackPct    int `json:"nack_pct,omitempty"` // DLQ destination rejects a write
}

type RecoveryCfg struct {
	MinDelayMs int   `json:"min_delay_ms"`
	MaxDelayMs int   `json:"max_delay_ms"`
	Factor     int   `json:"factor"`
	MaxRetries int64 `json:"max_retries"`
	WindowMs   int   `json:"window_ms"`
}

// Action is one step of a simulated client's script.
type Action struct {
	Client string `json:"client"`         // client name; actions of one client run in order
	Op     string `json:"op"`             // start stop forcestop stopwait wait stopall crash reconfigure ...
	Arg    string `json:"arg,omitempty"`  // op argument
	When   string `json:"when,omitempty"` // trigger kind: "" (immediately) | acked | emitted | written | step | time
	N      int    `json:"n,omitempty"`    // trigger threshold
	Note   string `json:"note,omitempty"`
}

const PipelineID = "pl"

func pick[T any](r *rand.Rand, xs ...T) T { return xs[r.IntN(len(xs))] }

// GenConfig draws a configuration for the given family from the seed.
func GenConfig(seed int64, family string) *Config {
	r := rand.New(rand.NewPCG(uint64(seed)^0xc0ffee, uint64(seed)*0x9e3779b97f4a7c15+7))
	c := &Config{Seed: seed, Family: family, Focus: os.Getenv("VERIF_FOCUS")}
	c.Engine = pick(r, "v1", "v2")
	if forceEngine != "" {
		c.Engine = forceEngine
	}
	c.Policy = pick(r, "uniform", "uniform", "prio", "first")
	c.DeviatePct = 5 + r.IntN(30)
	c.TimeAdvancePct = pick(r, 0, 2, 5, 15)
	c.MaxSteps = 20000
	c.MaxSimTime = 2 * time.Hour
	c.PersistDelayMs = pick(r, 1, 10, 100, 1000, 2000)
	c.PersistBundle = pick(r, 1, 2, 3, 5, 10, 50)
	c.Recovery = RecoveryCfg{MinDelayMs: pick(r, 10, 100, 1000), Factor: pick(r, 1, 2, 3), MaxRetries: int64(pick(r, 0, 1, 2, 3, -1)), WindowMs: pick(r, 100, 1000, 10000, 300000)}
	c.Recovery.MaxDelayMs = c.Recovery.MinDelayMs * pick(r, 1, 2, 10, 600)
	ns := pick(r, 1, 1, 1, 2, 3)
	nd := pick(r, 1, 1, 2, 2, 3)
	for i := 0; i < ns; i++ {
		c.Sources = append(c.Sources, SrcCfg{ID: fmt.Sprintf("src%d", i+1), NRec: 3 + r.IntN(pick(r, 5, 20, 58)), MaxBatch: 1 + r.IntN(8), Pruning: r.IntN(2) == 0})
	}
	for i := 0; i < nd; i++ {
		c.Dests = append(c.Dests, DstCfg{ID: fmt.Sprintf("dst%d", i+1), MaxAckBatch: 1 + r.IntN(6)})
	}
	c.DLQ = DLQCfg{WindowSize: r.IntN(7)}
	if c.DLQ.WindowSize > 0 {
		c.DLQ.Threshold = r.IntN(c.DLQ.WindowSize)
	}
	c.Faults = map[string]int{}
	genFamily(c, r)
	// gates (drawn last: everything above is unchanged by them)
	c.GatePermille = pick(r, 0, 0, 0, 0, 2, 10, 40)
	c.MaxGates = pick(r, 3, 10, 40, 200)
	c.GateMaxDelay = pick(r, 0, 0, 4, 30, 120)
	// favoured sites: a run that uses gates boosts a few site classes (site id mod 16) to a high
	// probability, so that the two or three preemptions one window needs can coincide
	if c.GatePermille > 0 && r.IntN(2) == 0 {
		for i, n := 0, 1+r.IntN(3); i < n; i++ {
			c.GateBoost = append(c.GateBoost, r.IntN(16))
		}
		c.GateBoostPermille = pick(r, 200, 500, 800)
	}
	if c.GateMaxDelay >= 30 {
		c.GateTimeMs = pick(r, 0, 100, 400)
	}
	ctlOdds := 4
	if (c.Focus == "C10" || c.Focus == "C11" || c.Focus == "C12") && (family == "control" || family == "recover" || family == "force") {
		ctlOdds = 2 // the control-plane properties spend half of their control-plane runs this way
	}
	if r.IntN(ctlOdds) == 0 {
		// dense exploration of the control plane: few preemptions, each possibly long
		c.GateScope = "control"
		c.GatePermille = pick(r, 50, 150, 400)
		c.MaxGates = pick(r, 2, 5, 12)
		c.GateMaxDelay = pick(r, 4, 30, 120, 300)
		c.GateTimeMs = pick(r, 0, 100, 400)
		c.GateBoost, c.GateBoostPermille = nil, 0
	}
	// (drawn after everything else) a stream Send returns when the transport has taken the
	// message; the plugin may answer before the caller runs again
	c.DstLinger = r.IntN(2) == 0
	return c
}

func genProcs(r *rand.Rand, prefix string, max int, c *Config) []ProcCfg {
	n := pick(r, 0, 0, 1, 1, 2, 3)
	if n > max {
		n = max
	}
	var ps []ProcCfg
	for i := 0; i < n; i++ {
		p := ProcCfg{ID: fmt.Sprintf("%s-p%d", prefix, i+1), Workers: pick(r, 1, 1, 2, 3)}
		p.ModifyPct = pick(r, 0, 30, 100)
		p.FilterPct = pick(r, 0, 0, 10, 40)
		ps = append(ps, p)
	}
	return ps
}

// GenConfigEngine is GenConfig with the engine forced (the rest of the draw is unchanged).
func GenConfigEngine(seed int64, family, engine string) *Config {
	forceEngine = engine
	defer func() { forceEngine = "" }()
	return GenConfig(seed, family)
}

var forceEngine string
