package harness

// Simulated transactional store behind database.DB: a durable map, buffered
// transactions, per-op parking and faults, snapshots per successful write.

import (
	"context"
	"encoding/base64"
	"encoding/json"
	"fmt"
	"os"
	"runtime"
	"sort"
	"strings"

	"github.com/conduitio/conduit-commons/database"
	"github.com/conduitio/conduit/pkg/foundation/cerrors"
)

type SimStore struct {
	w       *World
	durable map[string][]byte
	version int // bumped by every successful durable change
	// passthrough: ops are applied without parking (used during scenario set-up)
	passthrough bool
	txSeq       int
	// sequential fault enumeration (api/import families): the failAt-th store operation of
	// the current call fails (-1/0 = none); lastFailed names it
	opCount    int
	failAt     int
	lastFailed string
}

func newSimStore(w *World) *SimStore {
	return &SimStore{w: w, durable: map[string][]byte{}}
}

// handle is the per-incarnation view the engine holds.
type storeHandle struct {
	s   *SimStore
	inc int
}

type simTxn struct {
	h       *storeHandle
	id      int
	changes map[string][]byte
	order   []string
	done    bool
	client  string // simulated client on whose behalf the transaction runs ("" = engine)
}

func (h *storeHandle) Ping(context.Context) error { return nil }
func (h *storeHandle) Close() error               { return nil }

func (h *storeHandle) txn(ctx context.Context) *simTxn {
	t, _ := database.TransactionFromContext(ctx).(*simTxn)
	return t
}

func (h *storeHandle) NewTransaction(ctx context.Context, update bool) (database.Transaction, context.Context, error) {
	s := h.s
	if c := clientOf(ctx); c != "" && s.w.or != nil {
		s.w.or.beforeFirstEffect(s.w, c)
	}
	if s.countOp("newtx", "") {
		return nil, ctx, cerrors.Errorf("sim-fault db new transaction")
	}
	if !s.passthrough {
		d := s.w.park(nil, "db.newtx", "", h.inc, nil, "db.err")
		if d.fault != "" {
			s.w.log(Event{Kind: "TX_BEGIN", Inc: h.inc, Err: d.fault})
			return nil, ctx, cerrors.Errorf("sim-fault db new transaction")
		}
	}
	s.txSeq++
	t := &simTxn{h: h, id: s.txSeq, changes: map[string][]byte{}, client: clientOf(ctx)}
	s.w.log(Event{Kind: "TX_BEGIN", Inc: h.inc, N: t.id, OK: true})
	return t, database.ContextWithTransaction(ctx, t), nil
}

func (h *storeHandle) Set(ctx context.Context, key string, value []byte) error {
	s := h.s
	if t := h.txn(ctx); t != nil {
		if s.countOp("txset", key) {
			return cerrors.Errorf("sim-fault db set %s", key)
		}
		if !s.passthrough {
			d := s.w.park(nil, "db.txset", key, h.inc, nil, "db.err")
			if d.fault != "" {
				s.w.log(Event{Kind: "TX_SET", Ent: key, Inc: h.inc, N: t.id, Err: d.fault})
				return cerrors.Errorf("sim-fault db set %s", key)
			}
		}
		if _, seen := t.changes[key]; !seen {
			t.order = append(t.order, key)
		}
		t.changes[key] = value
		s.w.log(Event{Kind: "TX_SET", Ent: key, Inc: h.inc, N: t.id, OK: true})
		return nil
	}
	if s.countOp("set", key) {
		return cerrors.Errorf("sim-fault db set %s", key)
	}
	if !s.passthrough {
		faults := []string{"db.err"}
		if strings.HasPrefix(key, "pipeline:instance:") {
			faults = append(faults, "db.stall") // a slow store: this write is held while everything else goes on
		}
		d := s.w.park(nil, "db.set", key, h.inc, nil, faults...)
		if d.fault != "" {
			s.w.log(Event{Kind: "DB_SET", Ent: key, Inc: h.inc, Err: d.fault})
			return cerrors.Errorf("sim-fault db set %s", key)
		}
	}
	before, stBefore := "", 0
	if c := clientOf(ctx); c != "" {
		before = s.cfgDigest()
		stBefore, _, _ = s.durableStatus(PipelineID)
	}
	engineStatusWrite := clientOf(ctx) == "" && !s.passthrough && !s.w.direct && key == "pipeline:instance:"+PipelineID && s.w.or != nil
	cfgBefore := ""
	if engineStatusWrite {
		cfgBefore = s.cfgDigest()
	}
	s.apply(map[string][]byte{key: value})
	s.w.log(Event{Kind: "DB_SET", Ent: key, Inc: h.inc, OK: true, N: s.version})
	if engineStatusWrite && cfgBefore != s.cfgDigest() {
		// C11/C14: a status write never changes the configuration. If it does, it stored a
		// document serialized before a configuration change that has been committed since.
		s.w.violate("C11", "status-write-overwrote-newer-config", "a status write of the lifecycle service replaced the stored pipeline document by one serialized before a configuration change that had been committed in the meantime: the stored configuration lost that change")
	}
	if c := clientOf(ctx); c != "" && s.w.or != nil {
		s.w.or.onAttributedWrite(s.w, c, before, stBefore)
	}
	return nil
}

var DebugStoreKey = os.Getenv("VERIF_DEBUG_KEY")

func (s *SimStore) apply(changes map[string][]byte) {
	if DebugStoreKey != "" {
		if v, ok := changes[DebugStoreKey]; ok {
			fmt.Fprintf(os.Stderr, "DBG step %d write %s = %.400s\n", s.w.step, DebugStoreKey, v)
			if os.Getenv("VERIF_DEBUG_STACK") != "" && s.w.step >= 360 {
				buf := make([]byte, 1<<14)
				n := runtime.Stack(buf, false)
				fmt.Fprintf(os.Stderr, "DBGSTACK %s\n", buf[:n])
			}
		}
	}
	for k, v := range changes {
		if v == nil {
			delete(s.durable, k)
		} else {
			s.durable[k] = append([]byte(nil), v...)
		}
	}
	s.version++
}

func (h *storeHandle) Get(ctx context.Context, key string) ([]byte, error) {
	s := h.s
	if s.w.cfg.ParkReads && !s.passthrough {
		d := s.w.park(nil, "db.get", key, h.inc, nil, "db.err")
		if d.fault != "" {
			return nil, cerrors.Errorf("sim-fault db get %s", key)
		}
	}
	if t := h.txn(ctx); t != nil {
		if v, ok := t.changes[key]; ok {
			if v == nil {
				return nil, database.ErrKeyNotExist
			}
			return v, nil
		}
	}
	v, ok := s.durable[key]
	if !ok {
		return nil, database.ErrKeyNotExist
	}
	return append([]byte(nil), v...), nil
}

func (h *storeHandle) GetKeys(ctx context.Context, prefix string) ([]string, error) {
	s := h.s
	if s.w.cfg.ParkReads && !s.passthrough {
		d := s.w.park(nil, "db.getkeys", prefix, h.inc, nil, "db.err")
		if d.fault != "" {
			return nil, cerrors.Errorf("sim-fault db getkeys %s", prefix)
		}
	}
	set := map[string]bool{}
	for k := range s.durable {
		if strings.HasPrefix(k, prefix) {
			set[k] = true
		}
	}
	if t := h.txn(ctx); t != nil {
		for k, v := range t.changes {
			if strings.HasPrefix(k, prefix) {
				if v == nil {
					delete(set, k)
				} else {
					set[k] = true
				}
			}
		}
	}
	keys := make([]string, 0, len(set))
	for k := range set {
		keys = append(keys, k)
	}
	sort.Strings(keys)
	return keys, nil
}

func (t *simTxn) Commit() error {
	s := t.h.s
	if t.done {
		return cerrors.New("sim store: transaction already finished")
	}
	if s.countOp("commit", "") {
		t.done = true
		return cerrors.Errorf("sim-fault db commit")
	}
	if !s.passthrough {
		d := s.w.park(nil, "db.commit", "", t.h.inc, nil, "db.err")
		if d.fault != "" {
			t.done = true
			s.w.log(Event{Kind: "TX_COMMIT", Inc: t.h.inc, N: t.id, Err: d.fault})
			return cerrors.Errorf("sim-fault db commit")
		}
	}
	t.done = true
	before, stBefore := "", 0
	if t.client != "" {
		before = s.cfgDigest()
		stBefore, _, _ = s.durableStatus(PipelineID)
	}
	// a flush of the connector persister (no client, connector documents only) stores positions:
	// it must leave the stored configuration as it is
	positionFlush := t.client == "" && !s.passthrough && !s.w.direct && s.w.or != nil && s.w.started && len(t.changes) > 0
	for k := range t.changes {
		if !strings.HasPrefix(k, "connector:instance:") {
			positionFlush = false
		}
	}
	cfgBefore := ""
	if positionFlush {
		cfgBefore = s.cfgDigest()
	}
	s.apply(t.changes)
	keys := append([]string(nil), t.order...)
	s.w.log(Event{Kind: "TX_COMMIT", Inc: t.h.inc, N: t.id, OK: true, Pos: keys})
	if positionFlush && cfgBefore != s.cfgDigest() {
		prop := "C16"
		if f := s.w.cfg.Focus; f == "C14" || f == "C15" {
			prop = f
		}
		s.w.violate(prop, "position-write-overwrote-newer-config", fmt.Sprintf("a position flush of the connector persister (transaction %d, keys %v) changed the stored configuration: it wrote a connector document serialized before a configuration change (or deletion) that has been committed since - the store lost that change", t.id, keys))
	}
	if t.client != "" && s.w.or != nil && len(t.changes) > 0 {
		s.w.or.onAttributedWrite(s.w, t.client, before, stBefore)
	}
	return nil
}

func (t *simTxn) Discard() {
	if !t.done {
		t.done = true
		t.h.s.w.log(Event{Kind: "TX_DISCARD", Inc: t.h.inc, N: t.id})
	}
}

// ---- independent decoding of the durable view (does not use the engine's decode)

// durablePosition returns the stored position of a source connector, whether the
// connector document exists, and whether it carries a (non-empty) position.
func (s *SimStore) durablePosition(connID string) (pos []byte, exists bool, has bool) {
	raw, ok := s.durable["connector:instance:"+connID]
	if !ok {
		return nil, false, false
	}
	var doc map[string]any
	if err := json.Unmarshal(raw, &doc); err != nil {
		return nil, true, false
	}
	st, _ := doc["State"].(map[string]any)
	if st == nil {
		return nil, true, false
	}
	p, _ := st["Position"].(string)
	if p == "" {
		return nil, true, false
	}
	b, err := base64.StdEncoding.DecodeString(p)
	if err != nil {
		return nil, true, false
	}
	return b, true, len(b) > 0
}

// durableStatus returns the stored status number and error text of a pipeline.
func (s *SimStore) durableStatus(plID string) (status int, errText string, ok bool) {
	raw, found := s.durable["pipeline:instance:"+plID]
	if !found {
		return 0, "", false
	}
	var doc map[string]any
	if err := json.Unmarshal(raw, &doc); err != nil {
		return 0, "", false
	}
	f, _ := doc["Status"].(float64)
	e, _ := doc["Error"].(string)
	return int(f), e, true
}

func statusName(s int) string {
	switch s {
	case 1:
		return "running"
	case 2:
		return "system-stopped"
	case 3:
		return "user-stopped"
	case 4:
		return "degraded"
	case 5:
		return "recovering"
	}
	return "unknown"
}

// countOp counts one store operation of the current call and reports whether it is the one to fail.
func (s *SimStore) countOp(kind, key string) bool {
	if !s.passthrough {
		return false
	}
	s.opCount++
	if s.failAt > 0 && s.opCount == s.failAt {
		s.lastFailed = storeOpClass(kind, key)
		return true
	}
	return false
}
