package harness

// Gates: scheduler-controlled preemption points inside the engine.
//
// The patched runtime of the harness binary (tools/mkoverlay.py) calls yieldHook at the
// entry of every channel send, receive and select and of every sync.Mutex.Lock executed
// by a goroutine of the bubble. With a per-run probability (Config.GatePermille, drawn
// from a PRNG stream of its own) the goroutine parks there like at a seam - kind "gate" -
// and continues when the scheduler picks it. This opens the windows that contain no seam
// call (a goroutine descheduled between two in-memory steps), e.g. between releasing a
// channel-lock and re-checking a flag, or between two calls that each take a mutex.
// Simulated time never advances while a goroutine waits at a gate: a preemption is short.

import (
	"runtime"
	"strings"
	_ "unsafe"
)

//go:linkname simSetYieldFn runtime.simSetYieldFn
func simSetYieldFn(f func(kind int, n int, p0, p1, p2, p3, p4, p5 uintptr))

//go:linkname simSetNoYield runtime.simSetNoYield
func simSetNoYield(v bool) bool

var gateKinds = [...]string{"?", "send", "recv", "select", "lock"}

// A site is the engine source line that executes the operation. The decision whether an
// operation parks is a pure function of (run seed, scheduler step, site, how many times the
// site has run in this step): operations of lazily initialised library code, which exist in
// the first run of a process only, cannot shift it.
type gateSite struct {
	id       uint64
	eligible bool
	control  bool // the site is in a service (control-plane) function, not in the record path
}

var siteCache = map[uintptr]gateSite{} // per process; PCs are stable within one binary

type gateState struct {
	seed   uint64
	step   int
	occ    map[uint64]int
	ops    int
	parked int
}

func newGateState(seed int64) *gateState {
	return &gateState{seed: uint64(seed)*0x9e3779b97f4a7c15 ^ 0x6a7e5, occ: map[uint64]int{}}
}

var gatePrefixes = []string{"github.com/conduitio/conduit/", "gopkg.in/tomb", "github.com/conduitio/conduit-commons/csync", "github.com/conduitio/conduit-commons/rollback"}

func lookupSite(pcs *[6]uintptr, n int) gateSite {
	for i := 0; i < n; i++ {
		pc := pcs[i]
		if s, ok := siteCache[pc]; ok {
			if s.id == 0 {
				continue // a runtime / sync frame: look further up
			}
			return s
		}
		fr, _ := runtime.CallersFrames([]uintptr{pc}).Next()
		fn := fr.Function
		if strings.HasPrefix(fn, "runtime.") || strings.HasPrefix(fn, "sync.") || strings.HasPrefix(fn, "internal/sync.") || strings.HasPrefix(fn, "internal/") {
			siteCache[pc] = gateSite{}
			continue
		}
		s := gateSite{id: 1}
		for _, c := range []byte(fn) {
			s.id = (s.id ^ uint64(c)) * 0x100000001b3
		}
		s.id = mix64(s.id^uint64(fr.Line)*0x9e3779b97f4a7c15) | 1
		for _, p := range gatePrefixes {
			if strings.HasPrefix(fn, p) {
				s.eligible = true
			}
		}
		if !strings.Contains(fn, "/stream.") && !strings.Contains(fn, "/funnel.") {
			for _, p := range controlPrefixes {
				if strings.HasPrefix(fn, p) {
					s.control = true
				}
			}
		}
		siteCache[pc] = s
		return s
	}
	return gateSite{}
}

// controlPrefixes: the services that start, stop, recover and reconfigure pipelines and keep
// their stored state. With GateScope "control" only their operations are preemption points, so
// that the few of them in a run (against thousands in the record path) are explored densely.
var controlPrefixes = []string{
	"github.com/conduitio/conduit/pkg/lifecycle.", "github.com/conduitio/conduit/pkg/lifecycle-poc.",
	"github.com/conduitio/conduit/pkg/pipeline.", "github.com/conduitio/conduit/pkg/connector.(*Service)",
	"github.com/conduitio/conduit/pkg/processor.(*Service)", "github.com/conduitio/conduit/pkg/provisioning.",
	"github.com/conduitio/conduit/pkg/orchestrator.",
}

func yieldHook(kind int, n int, p0, p1, p2, p3, p4, p5 uintptr) {
	pcs := &[6]uintptr{p0, p1, p2, p3, p4, p5}
	w := curWorld
	if w == nil || w.gates == nil || w.cfg.GatePermille <= 0 || !w.started || w.direct {
		return
	}
	g := w.gates
	if g.parked >= w.cfg.MaxGates {
		return
	}
	s := lookupSite(pcs, n)
	if !s.eligible || (w.cfg.GateScope == "control" && !s.control) {
		return
	}
	if g.step != w.step {
		g.step = w.step
		clear(g.occ)
	}
	g.ops++
	g.occ[s.id]++
	h := mix64(g.seed ^ uint64(w.step)*0xbf58476d1ce4e5b9 ^ s.id ^ uint64(g.occ[s.id])<<48 ^ uint64(kind)<<40)
	pm := w.cfg.GatePermille
	for _, b := range w.cfg.GateBoost {
		if int(s.id%16) == b {
			pm = w.cfg.GateBoostPermille
		}
	}
	if int(h%1000) >= pm {
		return
	}
	if w.isDead() {
		return
	}
	g.parked++
	w.probe("gate-" + gateKinds[kind])
	// how long the preemption lasts, in scheduler steps: mostly short, sometimes long enough
	// for a whole run to end meanwhile
	w.gateDelay = 0
	if d := w.cfg.GateMaxDelay; d > 0 {
		w.gateDelay = int((h >> 24) % uint64(d+1))
	}
	w.park(nil, "gate", gateKinds[kind], 0, nil)
}
