package harness

// Control-plane families: recover (C10), control (C11), force (C12).

import (
	"fmt"
	"math/rand/v2"
	"strings"
	"time"
)

func simpleTopology(c *Config, r *rand.Rand, maxSrc, maxDst int) {
	if len(c.Sources) > maxSrc {
		c.Sources = c.Sources[:maxSrc]
	}
	if len(c.Dests) > maxDst {
		c.Dests = c.Dests[:maxDst]
	}
	for i := range c.Sources {
		c.Sources[i].Procs = nil
	}
	for i := range c.Dests {
		c.Dests[i].Procs = nil
		c.Dests[i].NackPct = 0
	}
	c.PipeProcs = nil
	if r.IntN(2) == 0 {
		c.PipeProcs = []ProcCfg{{ID: "pl-p1", Workers: pick(r, 1, 1, 2), ModifyPct: 50}}
	}
	c.DLQ.NackPct = 0
}

// genRecover: one root failure class per run (C10).
func genRecover(c *Config, r *rand.Rand) {
	simpleTopology(c, r, 2, 2)
	c.MaxSimTime = 3 * time.Hour
	// recovery knobs with small numbers so limits are reached
	c.Recovery.MaxRetries = int64(pick(r, 0, 1, 2, 3, 5))
	c.Recovery.WindowMs = pick(r, 50, 500, 5000, 60000)
	for i := range c.Sources {
		if c.Sources[i].NRec < 8 {
			c.Sources[i].NRec += 8
		}
	}
	plan := []Action{{Client: "main", Op: "setup"}, {Client: "main", Op: "start"}}
	total := totalRecords(c)
	sc := pick(r, "transient", "transient", "transient", "fatal-dlq-threshold", "fatal-dlq-write", "fatal-proc-error", "fatal-nonconverge", "user-stop", "stop-during-backoff", "stopall", "stopall-during-backoff", "stop-during-restart", "force-during-restart")
	if sc == "fatal-nonconverge" && c.Engine != "v2" {
		sc = "transient"
	}
	c.Scenario = sc
	switch sc {
	case "transient":
		c.MaxFaults = pick(r, 1, 2, 3, 4, 6)
		f := pick(r, "dst.write.err", "src.recv.err", "dst.ack.err", "db.err.flush")
		if f == "db.err.flush" {
			c.Faults["db.err"] = pick(r, 100, 300)
			c.FaultOnlyKeys = "connector:instance:" // only position flushes fail (status writes are C10's evidence)
		} else {
			c.Faults[f] = pick(r, 50, 200, 500)
		}
	case "fatal-dlq-threshold":
		c.Dests = c.Dests[:1]
		c.DLQ.WindowSize = 2 + r.IntN(4)
		c.DLQ.Threshold = 1 + r.IntN(c.DLQ.WindowSize-1)
		c.Dests[0].NackPct = 100
	case "fatal-dlq-write":
		c.Dests = c.Dests[:1]
		c.DLQ.WindowSize = pick(r, 0, 3, 5)
		if c.DLQ.WindowSize > 0 {
			c.DLQ.Threshold = 1 + r.IntN(c.DLQ.WindowSize-1)
		}
		c.Dests[0].NackPct = pick(r, 30, 100)
		c.DLQ.NackPct = 100
	case "fatal-proc-error":
		c.DLQ.WindowSize = pick(r, 1, 3)
		c.DLQ.Threshold = 0
		c.PipeProcs = []ProcCfg{{ID: "pl-p1", Workers: 1, ErrorPct: pick(r, 30, 100)}}
	case "fatal-nonconverge":
		c.PipeProcs = []ProcCfg{{ID: "pl-p1", Workers: 1, Stuck: true}}
	}
	if strings.HasPrefix(sc, "fatal-") && r.IntN(3) == 0 {
		// a slow store: the status write of the start may still be under way when the run fails
		c.MaxFaults = 1
		c.Faults["db.stall"] = pick(r, 300, 1000)
	}
	if strings.HasPrefix(sc, "fatal-") && sc != "fatal-nonconverge" && r.IntN(2) == 0 {
		// the fatal cause arrives while the server is shutting down or a user stop is draining
		plan = append(plan, Action{Client: "user", Op: pick(r, "stopall", "stopall", "stop"), When: pick(r, "emitted", "written", "step"), N: r.IntN(total + 1)})
	}
	switch sc {
	case "user-stop":
		c.MaxFaults = pick(r, 0, 1, 2)
		c.Faults["dst.write.err"] = 100
		plan = append(plan, Action{Client: "user", Op: pick(r, "stop", "stopwait"), When: pick(r, "acked", "emitted", "written", "step"), N: r.IntN(total + 1)})
	case "stop-during-backoff":
		c.MaxFaults = 1
		c.Faults[pick(r, "dst.write.err", "src.recv.err")] = 1000
		c.Recovery.MinDelayMs = pick(r, 1000, 5000)
		c.Recovery.MaxDelayMs = c.Recovery.MinDelayMs * 2
		c.Recovery.MaxRetries = int64(pick(r, 1, 3, -1))
		plan = append(plan, Action{Client: "user", Op: pick(r, "stop", "stopwait"), When: "status", N: 5})
	case "stop-during-restart", "force-during-restart":
		// the request lands while the automatic restart is building/opening the new run
		c.MaxFaults = 1
		c.Faults[pick(r, "dst.write.err", "src.recv.err", "dst.ack.err")] = 1000
		c.Recovery.MinDelayMs = pick(r, 10, 100)
		c.Recovery.MaxDelayMs = c.Recovery.MinDelayMs * 2
		c.Recovery.MaxRetries = int64(pick(r, 1, 3, -1))
		op := pick(r, "stop", "stopwait")
		if sc == "force-during-restart" {
			op = "forcestop"
		}
		plan = append(plan, Action{Client: "user", Op: op, When: "restarting"})
	case "stopall":
		c.MaxFaults = pick(r, 0, 1)
		c.Faults["dst.write.err"] = 100
		plan = append(plan,
			Action{Client: "user", Op: "stopall", When: pick(r, "acked", "emitted", "written"), N: r.IntN(total + 1)},
			Action{Client: "user", Op: "waitall"})
	case "stopall-during-backoff":
		c.MaxFaults = 1
		c.Faults[pick(r, "dst.write.err", "src.recv.err")] = 1000
		c.Recovery.MinDelayMs = pick(r, 1000, 5000)
		c.Recovery.MaxDelayMs = c.Recovery.MinDelayMs * 2
		c.Recovery.MaxRetries = int64(pick(r, 1, 3, -1))
		plan = append(plan,
			Action{Client: "user", Op: "stopall", When: "status", N: 5},
			Action{Client: "user", Op: "waitall"})
	}
	plan = append(plan,
		Action{Client: "main", Op: "settle-control", When: "ctl-done"},
		Action{Client: "main", Op: "end"})
	c.Plan = plan
}

// genForce: forced stop at an arbitrary instant, some plugins unresponsive (C12).
func genForce(c *Config, r *rand.Rand) {
	addProcs(c, r)
	c.Scenario = "forcestop"
	total := totalRecords(c)
	c.MaxFaults = pick(r, 0, 1, 2, 3)
	if c.MaxFaults > 0 {
		c.Faults["stall"] = pick(r, 20, 100, 300)
	}
	for i := range c.Dests {
		c.Dests[i].NackPct = pick(r, 0, 0, 10)
	}
	if c.Engine == "v1" && len(c.Dests) > 1 {
		for i := range c.Dests {
			c.Dests[i].NackPct = 0
		}
	}
	c.DLQ.WindowSize, c.DLQ.Threshold = 0, 0
	plan := []Action{{Client: "main", Op: "setup"}, {Client: "main", Op: "start"}}
	when := pick(r, "acked", "emitted", "written", "step", "now")
	if r.IntN(4) == 0 {
		// during a graceful stop
		plan = append(plan, Action{Client: "user2", Op: "stop", When: when, N: r.IntN(total + 1)})
	}
	plan = append(plan,
		Action{Client: "user", Op: "forcestop", When: when, N: r.IntN(total + 2)},
		Action{Client: "user", Op: "wait"},
		Action{Client: "user", Op: "check-force"},
		Action{Client: "user", Op: "start"},
		Action{Client: "main", Op: "settle", When: "restarted-quiet"},
		Action{Client: "main", Op: "end"})
	c.Plan = plan
}

// genControl: histories of control calls against runs that start, fail, recover (C11).
func genControl(c *Config, r *rand.Rand) {
	simpleTopology(c, r, 2, 2)
	c.Scenario = "control-history"
	c.MaxSimTime = 3 * time.Hour
	c.MaxFaults = pick(r, 0, 1, 2, 4)
	if c.MaxFaults > 0 {
		c.Faults[pick(r, "dst.write.err", "src.recv.err", "dst.ack.err")] = pick(r, 30, 200)
		if r.IntN(3) == 0 {
			c.Faults["plugin.err"] = pick(r, 20, 100)
		}
	}
	c.Recovery.MinDelayMs = pick(r, 10, 100, 1000)
	c.Recovery.MaxDelayMs = c.Recovery.MinDelayMs * pick(r, 1, 2, 10)
	c.Recovery.MaxRetries = int64(pick(r, 0, 1, 3, -1))
	for i := range c.Sources {
		c.Sources[i].NRec += 10
	}
	total := totalRecords(c)
	plan := []Action{{Client: "main", Op: "setup"}, {Client: "main", Op: "start"}}
	n := 2 + r.IntN(8)
	for i := 0; i < n; i++ {
		op := pick(r, "stop", "stopwait", "start", "start", "forcestop")
		plan = append(plan, Action{Client: "ctl", Op: op, When: pick(r, "acked", "emitted", "written", "step", "now", "now"), N: r.IntN(total*(i+1)/n + 2)})
	}
	// waits overlap the control calls; each waiter issues one wait (it blocks while the run lives)
	for i, nw := 0, r.IntN(3); i < nw; i++ {
		plan = append(plan, Action{Client: fmt.Sprintf("waiter%d", i+1), Op: "wait", When: pick(r, "acked", "emitted", "status", "step"), N: pick(r, 1, 1, 5, 5, 30)})
	}
	plan = append(plan,
		Action{Client: "main", Op: "settle-control", When: "ctl-done"},
		Action{Client: "main", Op: "end"})
	c.Plan = plan
	// some histories also meet failing status writes (only the pipeline document is hit):
	// a start whose "running" status cannot be stored, a cleanup that cannot record its result
	if c.MaxFaults > 0 && r.IntN(4) == 0 {
		c.Faults["db.stall"] = pick(r, 100, 300)
	}
	if c.MaxFaults > 0 && r.IntN(4) == 0 {
		c.Faults["db.err"] = pick(r, 100, 300, 600)
		c.FaultOnlyKeys = "pipeline:instance:"
	}
}

// genReconf: live processor reconfiguration on a running pipeline (C13, default engine only).
func genReconf(c *Config, r *rand.Rand) {
	c.Engine = "v1"
	if forceEngine == "v2" {
		c.Engine = "v2" // the v2 engine must refuse (checked as well)
	}
	simpleTopology(c, r, 2, 2)
	c.Scenario = "reconfigure"
	// processors: single-worker nodes are live-reconfigurable
	c.PipeProcs = []ProcCfg{{ID: "pl-p1", Workers: 1, ModifyPct: pick(r, 0, 50, 100), FilterPct: pick(r, 0, 0, 20)}}
	if r.IntN(2) == 0 {
		c.PipeProcs = append(c.PipeProcs, ProcCfg{ID: "pl-p2", Workers: pick(r, 1, 1, 2), ModifyPct: 50})
	}
	if r.IntN(2) == 0 {
		c.Sources[0].Procs = []ProcCfg{{ID: c.Sources[0].ID + "-p1", Workers: 1, ModifyPct: 50}}
	}
	if r.IntN(2) == 0 {
		c.Dests[0].Procs = []ProcCfg{{ID: c.Dests[0].ID + "-p1", Workers: 1, ModifyPct: 100}}
	}
	for i := range c.Sources {
		c.Sources[i].NRec += 12
	}
	c.MaxFaults = 0
	total := totalRecords(c)
	ps := allProcs(c)
	plan := []Action{{Client: "main", Op: "setup"}, {Client: "main", Op: "start"}}
	n := 1 + r.IntN(4)
	rev := 0
	for i := 0; i < n; i++ {
		rev++
		p := ps[r.IntN(len(ps))]
		a := Action{Client: "rc", Op: "reconfigure", Arg: p.ID, N: rev, When: pick(r, "acked", "emitted", "written", "step", "now"), Note: ""}
		a.Note = fmt.Sprintf("at=%d", r.IntN(total+2))
		switch r.IntN(6) {
		case 0:
			a.Note += " openfail"
		case 1:
			a.Note += " cancel"
		case 2:
			// the processor that is replaced fails to tear down (the swap itself is fine)
			a.Note += " tdfail"
		}
		plan = append(plan, a)
	}
	if r.IntN(3) == 0 {
		// a second client, concurrently, on a processor the first one does not touch (requests for
		// one pipeline's same processor are serialized by the provisioning lock in the real server)
		used := map[string]bool{}
		for _, a := range plan {
			if a.Op == "reconfigure" {
				used[a.Arg] = true
			}
		}
		for _, p := range ps {
			if !used[p.ID] {
				rev++
				plan = append(plan, Action{Client: "rc2", Op: "reconfigure", Arg: p.ID, N: rev, When: pick(r, "acked", "emitted", "written"), Note: fmt.Sprintf("at=%d", r.IntN(total+2))})
				break
			}
		}
	}
	if r.IntN(3) == 0 {
		// concurrent requests for the SAME processor (directly against the lifecycle service),
		// some of them cancelled by their caller while staged or being applied
		p := ps[r.IntN(len(ps))]
		for i, n := 0, 1+r.IntN(3); i < n; i++ {
			rev++
			a := Action{Client: pick(r, "rc", "rc2", "rc2"), Op: "reconfigure", Arg: p.ID, N: rev, When: pick(r, "acked", "emitted", "written", "now"), Note: fmt.Sprintf("at=%d", r.IntN(total+2))}
			if r.IntN(2) == 0 {
				a.Note += " cancel"
			}
			plan = append(plan, a)
		}
	}
	if r.IntN(4) == 0 {
		// reconfigure while a graceful stop is draining
		plan = append(plan, Action{Client: "stopper", Op: "stop", When: pick(r, "acked", "emitted"), N: r.IntN(total + 1)})
	}
	plan = append(plan,
		Action{Client: "main", Op: "settle-reconf", When: "rc-done"},
		Action{Client: "main", Op: "end"})
	c.Plan = plan
}
