package harness

// Sequential management-API simulation (C14, C17): sequences of orchestrator calls,
// every single store-operation failure of every call enumerated, restart-from-store
// comparison after every call. No scheduler: the world runs in direct mode.

import (
	"bytes"
	"context"
	"os"

	"encoding/json"
	"fmt"
	"github.com/conduitio/conduit-commons/opencdc"
	"math/rand/v2"
	"sort"
	"strings"
	"time"

	"github.com/conduitio/conduit-connector-protocol/pconnector"
	processorSdk "github.com/conduitio/conduit-processor-sdk"
	"github.com/conduitio/conduit/pkg/connector"
	"github.com/conduitio/conduit/pkg/foundation/cerrors"
	"github.com/conduitio/conduit/pkg/orchestrator"
	"github.com/conduitio/conduit/pkg/pipeline"
	"github.com/conduitio/conduit/pkg/processor"
)

// ApiOp is one management call of a generated sequence. Entities are referenced by
// their creation rank so a sequence is replayable although ids are generated.
type ApiOp struct {
	Op       string            `json:"op"`
	Ref      int               `json:"ref,omitempty"`  // rank of the target entity (kind implied by Op)
	Name     string            `json:"name,omitempty"` // pipeline/connector name
	Type     int               `json:"type,omitempty"` // connector type
	Plugin   string            `json:"plugin,omitempty"`
	Settings map[string]string `json:"settings,omitempty"`
	Parent   string            `json:"parent,omitempty"` // "pipeline" | "connector" (processor create)
	Cond     string            `json:"cond,omitempty"`
	Workers  int               `json:"workers,omitempty"`
	Window   int               `json:"window,omitempty"`
	Thresh   int               `json:"thresh,omitempty"`
}

var unicodeSamples = []string{"plain", "naïve café", "日本語のテキスト", "emoji 🚀🔥", "tab\tnew\nline", "quote\"back\\slash", "\u0000nul", "  spaces  ", "<xml>&amp;", strings.Repeat("long", 40), ""}

func genSettings(r *rand.Rand) map[string]string {
	n := r.IntN(4)
	if r.IntN(6) == 0 {
		return nil
	}
	m := map[string]string{}
	for i := 0; i < n; i++ {
		m[pick(r, "k", "url", "ключ", "a.b", "k k")+fmt.Sprint(i)] = unicodeSamples[r.IntN(len(unicodeSamples))]
	}
	return m
}

func genApi(c *Config, r *rand.Rand) {
	c.Scenario = "api"
	n := 4 + r.IntN(9)
	names := []string{"alpha", "beta", "alpha", "gamma ünï", "", strings.Repeat("x", 300), "delta"}
	var ops []ApiOp
	ops = append(ops, ApiOp{Op: "create-pipeline", Name: "alpha"})
	for len(ops) < n {
		switch r.IntN(16) {
		case 0, 1:
			ops = append(ops, ApiOp{Op: "create-pipeline", Name: names[r.IntN(len(names))]})
		case 2:
			ops = append(ops, ApiOp{Op: "update-pipeline", Ref: r.IntN(3), Name: names[r.IntN(len(names))]})
		case 3:
			ops = append(ops, ApiOp{Op: "delete-pipeline", Ref: r.IntN(3)})
		case 4:
			w := r.IntN(5)
			ops = append(ops, ApiOp{Op: "update-dlq", Ref: r.IntN(3), Plugin: pick(r, "sim-dlq", "sim-dlq", ""), Window: w, Thresh: r.IntN(w + 2), Settings: genSettings(r)})
		case 5, 6, 7:
			ops = append(ops, ApiOp{Op: "create-connector", Ref: r.IntN(3), Type: pick(r, 1, 1, 2, 2, 0), Plugin: pick(r, "sim-src", "sim-dst", "sim-dst", ""), Name: pick(r, "conn", "c ö", ""), Settings: genSettings(r)})
		case 8:
			ops = append(ops, ApiOp{Op: "update-connector", Ref: r.IntN(4), Plugin: pick(r, "sim-src", "sim-dst", "sim-dst", pluginGone), Name: pick(r, "conn2", "c"), Settings: genSettings(r)})
		case 9:
			ops = append(ops, ApiOp{Op: "delete-connector", Ref: r.IntN(4)})
		case 10, 11:
			ops = append(ops, ApiOp{Op: "create-processor", Ref: r.IntN(3), Parent: pick(r, "pipeline", "connector", "connector"), Plugin: "sim-proc", Settings: genSettings(r), Cond: pick(r, "", "", condTemplate(0), "{{ bad"), Workers: pick(r, 0, 1, 3, -1)})
		case 12:
			ops = append(ops, ApiOp{Op: "update-processor", Ref: r.IntN(4), Plugin: pick(r, "sim-proc", "sim-proc", ""), Settings: genSettings(r), Workers: pick(r, 1, 2)})
		case 13:
			ops = append(ops, ApiOp{Op: "delete-processor", Ref: r.IntN(4)})
		case 14:
			ops = append(ops, ApiOp{Op: "start", Ref: r.IntN(3)})
		case 15:
			ops = append(ops, ApiOp{Op: "stop", Ref: r.IntN(3)})
		}
		if c.Family == "persist" && r.IntN(2) == 0 {
			// stored state written by the data path: positions of arbitrary bytes, every status
			if r.IntN(2) == 0 {
				ops = append(ops, ApiOp{Op: "set-state", Ref: r.IntN(4), Name: pick(r, "", "nil", "bin", "utf8", "big", "nul", "b64ish")})
			} else {
				ops = append(ops, ApiOp{Op: "set-status", Ref: r.IntN(3), Type: 1 + r.IntN(5), Name: unicodeSamples[r.IntN(len(unicodeSamples))]})
			}
		}
	}
	c.ApiOps = ops
	c.ApiConfigProvisioned = r.IntN(3) == 0
	c.Plan = []Action{{Client: "main", Op: "api-experiment"}, {Client: "main", Op: "end"}}
}

// ---------------------------------------------------------------- fakes for the orchestrator

type apiConnPlugins struct{ *PluginService }

func (p apiConnPlugins) List(context.Context) (map[string]pconnector.Specification, error) {
	return map[string]pconnector.Specification{}, nil
}
func (p apiConnPlugins) ValidateSourceConfig(_ context.Context, name string, settings map[string]string) error {
	if name == "" {
		return cerrors.New("sim: empty plugin name")
	}
	return nil
}
func (p apiConnPlugins) ValidateDestinationConfig(_ context.Context, name string, settings map[string]string) error {
	if name == "" {
		return cerrors.New("sim: empty plugin name")
	}
	return nil
}

type apiProcPlugins struct{}

func (apiProcPlugins) List(context.Context) (map[string]processorSdk.Specification, error) {
	return map[string]processorSdk.Specification{}, nil
}
func (apiProcPlugins) RegisterStandalonePlugin(context.Context, string) (string, error) {
	return "", cerrors.New("sim: not supported")
}

// apiLifecycle stands in for the lifecycle service: starting and stopping only flips the
// pipeline status, which is all the management API's guards look at.
type apiLifecycle struct{ st *Stack }

func (l apiLifecycle) Start(ctx context.Context, id string) error {
	pl, err := l.st.pipe.Get(ctx, id)
	if err != nil {
		return err
	}
	if pl.GetStatus() == pipeline.StatusRunning {
		return pipeline.ErrPipelineRunning
	}
	return l.st.pipe.UpdateStatus(ctx, id, pipeline.StatusRunning, "")
}
func (l apiLifecycle) Stop(ctx context.Context, id string, _ bool) error {
	pl, err := l.st.pipe.Get(ctx, id)
	if err != nil {
		return err
	}
	if pl.GetStatus() != pipeline.StatusRunning {
		return pipeline.ErrPipelineNotRunning
	}
	return l.st.pipe.UpdateStatus(ctx, id, pipeline.StatusUserStopped, "")
}

// ---------------------------------------------------------------- experiment

type apiEnv struct {
	st   *Stack
	orc  *orchestrator.Orchestrator
	pls  []string // pipeline ids by creation rank
	cons []string
	prs  []string
}

func (w *World) newApiEnv() *apiEnv {
	w.db = newSimStore(w)
	w.db.passthrough = true
	st := w.newStack()
	e := &apiEnv{st: st}
	e.orc = orchestrator.NewOrchestrator(st.db, st.log, st.pipe, st.conn, st.proc, apiConnPlugins{st.plug}, apiProcPlugins{}, apiLifecycle{st})
	return e
}

func positionSample(kind string) opencdc.Position {
	switch kind {
	case "nil":
		return nil
	case "":
		return opencdc.Position{}
	case "bin":
		return opencdc.Position{0xff, 0xfe, 0x00, 0x80, 0xc3, 0x28, 0x0a, 0x22, 0x5c}
	case "utf8":
		return opencdc.Position("позиция-位置-🚀")
	case "big":
		b := make([]byte, 70000)
		for i := range b {
			b[i] = byte(i * 31)
		}
		return b
	case "nul":
		return opencdc.Position{0, 0, 0}
	default:
		return opencdc.Position("Z29sZGVu==\"}") // looks like encoded data itself
	}
}

func pickRef(ids []string, ref int) string {
	if len(ids) == 0 {
		return "no-such-id"
	}
	if ref >= len(ids) {
		return "missing-" + fmt.Sprint(ref)
	}
	return ids[ref]
}

// apply executes one operation; it returns the error of the call.
func (e *apiEnv) apply(ctx context.Context, op ApiOp) error {
	o := e.orc
	switch op.Op {
	case "create-pipeline":
		pl, err := o.Pipelines.Create(ctx, pipeline.Config{Name: op.Name, Description: "d " + op.Name})
		if err == nil {
			e.pls = append(e.pls, pl.ID)
		}
		return err
	case "update-pipeline":
		_, err := o.Pipelines.Update(ctx, pickRef(e.pls, op.Ref), pipeline.Config{Name: op.Name, Description: "upd"})
		return err
	case "delete-pipeline":
		return o.Pipelines.Delete(ctx, pickRef(e.pls, op.Ref))
	case "update-dlq":
		_, err := o.Pipelines.UpdateDLQ(ctx, pickRef(e.pls, op.Ref), pipeline.DLQ{Plugin: op.Plugin, Settings: op.Settings, WindowSize: op.Window, WindowNackThreshold: op.Thresh})
		return err
	case "create-connector":
		c, err := o.Connectors.Create(ctx, connector.Type(op.Type), op.Plugin, pickRef(e.pls, op.Ref), connector.Config{Name: op.Name, Settings: op.Settings})
		if err == nil {
			e.cons = append(e.cons, c.ID)
		}
		return err
	case "update-connector":
		_, err := o.Connectors.Update(ctx, pickRef(e.cons, op.Ref), op.Plugin, connector.Config{Name: op.Name, Settings: op.Settings})
		return err
	case "delete-connector":
		return o.Connectors.Delete(ctx, pickRef(e.cons, op.Ref))
	case "create-processor":
		parent := processor.Parent{ID: pickRef(e.pls, op.Ref), Type: processor.ParentTypePipeline}
		if op.Parent == "connector" {
			parent = processor.Parent{ID: pickRef(e.cons, op.Ref), Type: processor.ParentTypeConnector}
		}
		p, err := o.Processors.Create(ctx, op.Plugin, parent, processor.Config{Settings: op.Settings, Workers: op.Workers}, op.Cond)
		if err == nil {
			e.prs = append(e.prs, p.ID)
		}
		return err
	case "update-processor":
		_, err := o.Processors.Update(ctx, pickRef(e.prs, op.Ref), op.Plugin, processor.Config{Settings: op.Settings, Workers: op.Workers})
		return err
	case "delete-processor":
		return o.Processors.Delete(ctx, pickRef(e.prs, op.Ref))
	case "set-state":
		id := pickRef(e.cons, op.Ref)
		inst, err := e.st.conn.Get(ctx, id)
		if err != nil {
			return err
		}
		pos := positionSample(op.Name)
		if inst.Type == connector.TypeSource {
			_, err = e.st.conn.SetState(ctx, id, connector.SourceState{Position: pos})
		} else {
			var m map[string]opencdc.Position
			if op.Name != "nil" {
				m = map[string]opencdc.Position{"src-a": pos, "ключ": opencdc.Position("x")}
			}
			_, err = e.st.conn.SetState(ctx, id, connector.DestinationState{Positions: m})
		}
		return err
	case "set-status":
		return e.st.pipe.UpdateStatus(ctx, pickRef(e.pls, op.Ref), pipeline.Status(op.Type), op.Name)
	case "start":
		return o.Pipelines.Start(ctx, pickRef(e.pls, op.Ref))
	case "stop":
		return o.Pipelines.Stop(ctx, pickRef(e.pls, op.Ref), false)
	}
	return cerrors.Errorf("sim: unknown api op %q", op.Op)
}

// view is the canonical form of all entities of a stack: id -> normalised JSON.
type view map[string]string

func canon(v any) string {
	b, err := json.Marshal(v)
	if err != nil {
		return "marshal-error: " + err.Error()
	}
	var g any
	if err := json.Unmarshal(b, &g); err != nil {
		return string(b)
	}
	g = normTimes(g)
	b, _ = json.Marshal(g)
	return string(b)
}

func normTimes(g any) any {
	switch x := g.(type) {
	case map[string]any:
		if len(x) == 0 {
			return nil // an empty map and a missing one are the same thing to every reader
		}
		for k, v := range x {
			x[k] = normTimes(v)
		}
		return x
	case []any:
		if len(x) == 0 {
			return nil // likewise an empty list
		}
		for i := range x {
			x[i] = normTimes(x[i])
		}
		return x
	case string:
		if x == "" {
			return nil // an empty position/string and an absent one carry the same information
		}
		if len(x) >= 20 && x[4] == '-' && x[10] == 'T' {
			if t, err := time.Parse(time.RFC3339Nano, x); err == nil {
				return t.UTC().Format(time.RFC3339Nano)
			}
		}
	}
	return g
}

func (st *Stack) memView(ctx context.Context, mapRunning bool) view {
	v := view{}
	for id, pl := range st.pipe.List(ctx) {
		status := int(pl.GetStatus())
		if mapRunning && (status == 1 || status == 5) {
			status = 2 // a restarted server reports a running pipeline as system-stopped (to be resumed)
		}
		v["pipeline:"+id] = canon(map[string]any{"i": pl, "status": status})
	}
	for id, c := range st.conn.List(ctx) {
		v["connector:"+id] = canon(c)
	}
	for id, p := range st.proc.List(ctx) {
		v["processor:"+id] = canon(p)
	}
	return v
}

func diffViews(a, b view) string {
	keys := map[string]bool{}
	for k := range a {
		keys[k] = true
	}
	for k := range b {
		keys[k] = true
	}
	ks := make([]string, 0, len(keys))
	for k := range keys {
		ks = append(ks, k)
	}
	sort.Strings(ks)
	for _, k := range ks {
		if a[k] != b[k] {
			x, y := a[k], b[k]
			// show the region where they differ
			i := 0
			for i < len(x) && i < len(y) && x[i] == y[i] {
				i++
			}
			lo := i - 60
			if lo < 0 {
				lo = 0
			}
			cut := func(z string) string {
				hi := i + 140
				if hi > len(z) {
					hi = len(z)
				}
				if lo > len(z) {
					return ""
				}
				return z[lo:hi]
			}
			return fmt.Sprintf("%s: ...%s  <>  ...%s", k, cut(x), cut(y))
		}
	}
	return ""
}

func copyDurable(m map[string][]byte) map[string]string {
	out := make(map[string]string, len(m))
	for k, v := range m {
		out[k] = string(v)
	}
	return out
}

// canonDoc normalises a stored JSON document (empty == absent, instants in UTC).
func canonDoc(raw string) string {
	var g any
	if err := json.Unmarshal([]byte(raw), &g); err != nil {
		return raw
	}
	b, _ := json.Marshal(normTimes(g))
	return string(b)
}

func diffDurable(a, b map[string]string) string {
	for k, v := range a {
		if b[k] != v && canonDoc(b[k]) != canonDoc(v) {
			return "key " + k + " changed: " + diffViews(view{k: canonDoc(v)}, view{k: canonDoc(b[k])})
		}
	}
	for k := range b {
		if _, ok := a[k]; !ok {
			return "key " + k + " appeared"
		}
	}
	return ""
}

// storeOpName describes the n-th store operation of the call that is running (kind:entity-kind).
func storeOpClass(kind, key string) string {
	ent := key
	if i := strings.Index(key, ":instance:"); i >= 0 {
		ent = key[:i]
	}
	if ent == "" {
		return kind
	}
	return kind + ":" + ent
}

func refsConsistent(ctx context.Context, st *Stack) string {
	pls, cons, prs := st.pipe.List(ctx), st.conn.List(ctx), st.proc.List(ctx)
	for id, pl := range pls {
		for _, cid := range pl.ConnectorIDs {
			c, ok := cons[cid]
			if !ok {
				return fmt.Sprintf("pipeline %s references connector %s which does not exist", id, cid)
			}
			if c.PipelineID != id {
				return fmt.Sprintf("pipeline %s lists connector %s which belongs to pipeline %s", id, cid, c.PipelineID)
			}
		}
		for _, pid := range pl.ProcessorIDs {
			p, ok := prs[pid]
			if !ok {
				return fmt.Sprintf("pipeline %s references processor %s which does not exist", id, pid)
			}
			if p.Parent.ID != id {
				return fmt.Sprintf("pipeline %s lists processor %s whose parent is %s", id, pid, p.Parent.ID)
			}
		}
	}
	for id, c := range cons {
		pl, ok := pls[c.PipelineID]
		if !ok {
			return fmt.Sprintf("connector %s belongs to pipeline %s which does not exist", id, c.PipelineID)
		}
		if !contains(pl.ConnectorIDs, id) {
			return fmt.Sprintf("connector %s is not listed by its pipeline %s", id, c.PipelineID)
		}
		for _, pid := range c.ProcessorIDs {
			p, ok := prs[pid]
			if !ok {
				return fmt.Sprintf("connector %s references processor %s which does not exist", id, pid)
			}
			if p.Parent.ID != id {
				return fmt.Sprintf("connector %s lists processor %s whose parent is %s", id, pid, p.Parent.ID)
			}
		}
	}
	for id, p := range prs {
		switch p.Parent.Type {
		case processor.ParentTypePipeline:
			pl, ok := pls[p.Parent.ID]
			if !ok || !contains(pl.ProcessorIDs, id) {
				return fmt.Sprintf("processor %s is not listed by its parent pipeline %s", id, p.Parent.ID)
			}
		case processor.ParentTypeConnector:
			c, ok := cons[p.Parent.ID]
			if !ok || !contains(c.ProcessorIDs, id) {
				return fmt.Sprintf("processor %s is not listed by its parent connector %s", id, p.Parent.ID)
			}
		}
	}
	return ""
}

// duplicateNames: two pipelines of the in-memory view carry the same name.
func duplicateNames(ctx context.Context, st *Stack) string {
	pls := st.pipe.List(ctx)
	ids := make([]string, 0, len(pls))
	for id := range pls {
		ids = append(ids, id)
	}
	sort.Strings(ids)
	seen := map[string]string{}
	for _, id := range ids {
		n := pls[id].Config.Name
		if other, ok := seen[n]; ok {
			return fmt.Sprintf("pipelines %s and %s are both named %q", other, id, n)
		}
		seen[n] = id
	}
	return ""
}

func contains(xs []string, x string) bool {
	for _, y := range xs {
		if y == x {
			return true
		}
	}
	return false
}

// apiExperiment runs the generated sequence fault-free, then once per (call, store-op) with
// exactly that store operation failing, checking the C14/C17 oracles after every call.
func (s *Sim) apiExperiment() {
	w := s.w
	ctx := context.Background()
	w.direct = true
	defer func() { w.direct = false }()
	ops := w.cfg.ApiOps
	// clean pass: count store ops per call
	counts := make([]int, len(ops))
	cleanDup := false // the calls produce two pipelines with one name even without a store failure
	run := func(failCall, failOp int) {
		env := w.newApiEnv()
		if w.cfg.ApiConfigProvisioned {
			// a file-provisioned pipeline with a connector and a processor: must never be modified through the API
			_, _ = env.st.pipe.Create(ctx, "cfg-pl", pipeline.Config{Name: "from-file"}, pipeline.ProvisionTypeConfig)
			_, _ = env.st.conn.Create(ctx, "cfg-conn", connector.TypeSource, "sim-src", "cfg-pl", connector.Config{Name: "cc", Settings: map[string]string{"a": "b"}}, connector.ProvisionTypeConfig)
			_, _ = env.st.pipe.AddConnector(ctx, "cfg-pl", "cfg-conn")
			env.pls = append(env.pls, "cfg-pl")
			env.cons = append(env.cons, "cfg-conn")
		}
		for i, op := range ops {
			before := env.st.memView(ctx, false)
			durBefore := copyDurable(w.db.durable)
			guarded := guardedEntities(ctx, env.st)
			w.db.opCount = 0
			w.db.failAt = -1
			w.db.lastFailed = ""
			if i == failCall {
				w.db.failAt = failOp
			}
			err := env.apply(ctx, op)
			w.db.failAt = -1
			if failCall < 0 {
				counts[i] = w.db.opCount
			}
			w.stepsServed++
			tag := fmt.Sprintf("%s", op.Op)
			if i == failCall && w.db.lastFailed != "" {
				tag = fmt.Sprintf("%s/%s", op.Op, w.db.lastFailed)
			}
			after := env.st.memView(ctx, false)
			crud := op.Op != "start" && op.Op != "stop" && op.Op != "set-status" && op.Op != "set-state" // status/state writes belong to the lifecycle and data-path properties
			if err != nil && crud {
				if d := diffViews(before, after); d != "" {
					w.violate("C14", "failed-call-changed-memory:"+tag, fmt.Sprintf("call #%d %s failed (%s) but the in-memory view changed: %s", i, op.Op, firstLine(err.Error()), d))
				}
				if d := diffDurable(durBefore, copyDurable(w.db.durable)); d != "" {
					w.violate("C14", "failed-call-changed-store:"+tag, fmt.Sprintf("call #%d %s failed (%s) but the store changed: %s", i, op.Op, firstLine(err.Error()), d))
				}
			}
			// guarded entities (running / file-provisioned pipelines) are never modified by CRUD calls
			if crud {
				for k, val := range guarded {
					if after[k] != val {
						w.violate("C14", "guarded-entity-modified:"+op.Op, fmt.Sprintf("call #%d %s modified %s, which belongs to a running or file-provisioned pipeline", i, op.Op, k))
					}
				}
			}
			// restart equivalence: fresh services on the same store see what memory holds
			fresh := w.newStack()
			if ierr := fresh.proc.Init(ctx); ierr == nil {
				ierr = fresh.conn.Init(ctx)
				if ierr == nil {
					ierr = fresh.pipe.Init(ctx)
				}
				if ierr != nil {
					w.violate("C17", "restart-cannot-load:"+tag, fmt.Sprintf("after call #%d %s a restarted server cannot load the store: %s", i, op.Op, ierr))
				} else if bad := runningAfterRestart(ctx, env.st, fresh); bad != "" {
					w.violate("C17", "running-pipeline-not-marked-for-resume", bad)
				} else if d := diffViews(env.st.memView(ctx, true), fresh.memView(ctx, true)); d != "" && (crud || err == nil) {
					owner := "C14"
					if err == nil && failCall < 0 {
						owner = "C17"
					}
					w.violate(owner, "memory-differs-from-store:"+tag, fmt.Sprintf("after call #%d %s (error: %v) the in-memory view differs from what a restarted server loads: %s", i, op.Op, err != nil, d))
				}
			}
			if d := duplicateNames(ctx, env.st); d != "" && failCall < 0 {
				cleanDup = true
			} else if d != "" && !cleanDup {
				// (the name of a pipeline is reserved for it: a failed call that gives the
				// reservation away shows as soon as a later call is accepted with that name)
				w.violate("C14", "pipeline-name-taken-twice", fmt.Sprintf("after call #%d %s (error: %v): %s - in the run without the injected store failure the same calls never produce two pipelines with one name", i, op.Op, err != nil, d))
			}
			if d := refsConsistent(ctx, env.st); d != "" {
				w.violate("C14", "dangling-reference:"+tag, fmt.Sprintf("after call #%d %s (error: %v): %s", i, op.Op, err != nil, d))
			}
			if w.hasViolation() {
				return
			}
		}
	}
	if w.cfg.Family == "persist" {
		s.legacyCheck()
		if w.hasViolation() {
			return
		}
	}
	run(-1, -1)
	w.probe("api-sequences")
	if w.hasViolation() {
		return
	}
	for i := range ops {
		if ops[i].Op == "start" || ops[i].Op == "stop" || ops[i].Op == "set-status" || ops[i].Op == "set-state" {
			continue // status writes are the lifecycle's business (C10/C11), not a CRUD call
		}
		for j := 1; j <= counts[i]; j++ {
			run(i, j)
			w.probe("api-fault-variants")
			if w.hasViolation() {
				w.note(fmt.Sprintf("failing variant: call %d store-op %d", i, j))
				return
			}
		}
	}
}

func guardedEntities(ctx context.Context, st *Stack) view {
	g := view{}
	all := st.memView(ctx, false)
	for id, pl := range st.pipe.List(ctx) {
		if pl.GetStatus() != pipeline.StatusRunning && pl.ProvisionedBy == pipeline.ProvisionTypeAPI {
			continue
		}
		g["pipeline:"+id] = all["pipeline:"+id]
		for _, cid := range pl.ConnectorIDs {
			g["connector:"+cid] = all["connector:"+cid]
			if c, err := st.conn.Get(ctx, cid); err == nil {
				for _, pid := range c.ProcessorIDs {
					g["processor:"+pid] = all["processor:"+pid]
				}
			}
		}
		for _, pid := range pl.ProcessorIDs {
			g["processor:"+pid] = all["processor:"+pid]
		}
	}
	return g
}

// runningAfterRestart: a pipeline that was running (or recovering) must be found by a restarted
// server as system-stopped, the status lifecycle.Init resumes; nothing else may claim to run.
func runningAfterRestart(ctx context.Context, live, fresh *Stack) string {
	for id, pl := range fresh.pipe.List(ctx) {
		st := pl.GetStatus()
		if st == pipeline.StatusRunning || st == pipeline.StatusRecovering {
			return fmt.Sprintf("after a restart pipeline %s is loaded with status %d although no run exists", id, st)
		}
		if old, err := live.pipe.Get(ctx, id); err == nil {
			os := old.GetStatus()
			if (os == pipeline.StatusRunning || os == pipeline.StatusRecovering) && st != pipeline.StatusSystemStopped {
				return fmt.Sprintf("pipeline %s was running/recovering but a restarted server loads it with status %d instead of system-stopped: it would not be resumed", id, st)
			}
		}
	}
	return ""
}

// legacyCheck seeds the store with documents of older supported formats (the repository's own
// golden files and a pre-0.4.1 connector document) and checks a server start understands them.
func (s *Sim) legacyCheck() {
	w := s.w
	ctx := context.Background()
	w.db = newSimStore(w)
	w.db.passthrough = true
	read := func(p string) []byte {
		b, err := os.ReadFile(p)
		if err != nil {
			return nil
		}
		return b
	}
	docs := map[string][]byte{
		"connector:instance:golden-source":      read("/repo/pkg/connector/testdata/golden_source_instance.json"),
		"connector:instance:golden-destination": read("/repo/pkg/connector/testdata/golden_destination_instance.json"),
		"pipeline:instance:golden-pipeline":     read("/repo/pkg/pipeline/testdata/golden_pipeline_instance.json"),
		"processor:instance:golden-processor":   read("/repo/pkg/processor/testdata/golden_processor_instance.json"),
	}
	n := 0
	for k, v := range docs {
		if v != nil {
			w.db.durable[k] = v
			n++
		}
	}
	// a connector stored by a pre-0.4.1 server
	w.db.durable["connector:connector:old-src"] = []byte(`{"Type":"Source","Data":{"XID":"old-src","XConfig":{"Name":"old","Settings":{"k":"v"},"Plugin":"builtin:file","PipelineID":"golden-pipeline","ProcessorIDs":["p1"]},"XState":{"Position":"b2xkLXBvcw=="},"XProvisionedBy":0,"XCreatedAt":"2022-01-02T03:04:05Z","XUpdatedAt":"2022-01-02T03:04:06+02:00"}}`)
	// ... and a generated set of further ones: different types, names, key sets, processor
	// lists, positions and timestamps, with optional fields absent
	type oldDoc struct {
		id, typ, name, plugin string
		settings              map[string]string
		procs                 []string
		pos                   []byte
		created, updated      time.Time
	}
	lr := rand.New(rand.NewPCG(uint64(w.cfg.Seed), 0x041))
	var olds []oldDoc
	for i, k := 0, 1+lr.IntN(4); i < k; i++ {
		d := oldDoc{id: fmt.Sprintf("old-%d", i), typ: pick(lr, "Source", "Destination"), name: unicodeSamples[lr.IntN(len(unicodeSamples))], plugin: pick(lr, "builtin:file", "builtin:kafka", "standalone:x"),
			settings: genSettings(lr), created: time.Unix(1600000000+int64(lr.IntN(1e8)), int64(lr.IntN(1e9))).UTC(), updated: time.Unix(1700000000+int64(lr.IntN(1e7)), 0).In(time.FixedZone("", 3600*(lr.IntN(25)-12)))}
		for j, m := 0, lr.IntN(4); j < m; j++ {
			d.procs = append(d.procs, fmt.Sprintf("old-%d-p%d", i, lr.IntN(9)))
		}
		if lr.IntN(4) != 0 {
			d.pos = make([]byte, 1+lr.IntN(12))
			for j := range d.pos {
				d.pos[j] = byte(lr.IntN(256))
			}
		}
		cfg := map[string]any{"Name": d.name, "Plugin": d.plugin, "PipelineID": "golden-pipeline"}
		if d.settings != nil {
			cfg["Settings"] = d.settings
		}
		if d.procs != nil {
			cfg["ProcessorIDs"] = d.procs
		}
		data := map[string]any{"XID": d.id, "XConfig": cfg, "XProvisionedBy": 0, "XCreatedAt": d.created, "XUpdatedAt": d.updated}
		if d.pos != nil {
			if d.typ == "Source" {
				data["XState"] = map[string]any{"Position": d.pos}
			} else {
				data["XState"] = map[string]any{"Positions": map[string][]byte{"s": d.pos}}
			}
		}
		raw, _ := json.Marshal(map[string]any{"Type": d.typ, "Data": data})
		w.db.durable["connector:connector:"+d.id] = raw
		olds = append(olds, d)
	}
	// the server starts on that store (old connector documents are migrated when the store is opened)
	env := &apiEnv{st: w.newStack()}
	if err := env.st.proc.Init(ctx); err != nil {
		w.violate("C17", "legacy-load-failed", "processor init on legacy documents: "+err.Error())
		return
	}
	if err := env.st.conn.Init(ctx); err != nil {
		w.violate("C17", "legacy-load-failed", "connector init on legacy documents: "+err.Error())
		return
	}
	if err := env.st.pipe.Init(ctx); err != nil {
		w.violate("C17", "legacy-load-failed", "pipeline init on legacy documents: "+err.Error())
		return
	}
	w.probe("legacy-documents-loaded")
	if n == 4 {
		c, err := env.st.conn.Get(ctx, "golden-source")
		if err != nil {
			w.violate("C17", "legacy-entity-missing", "golden source connector not loaded: "+err.Error())
		} else if st, ok := c.State.(connector.SourceState); !ok || string(st.Position) != "golden-position-42" {
			w.violate("C17", "legacy-position-changed", fmt.Sprintf("golden source connector loaded with state %#v", c.State))
		}
		if pl, err := env.st.pipe.Get(ctx, "golden-pipeline"); err != nil {
			w.violate("C17", "legacy-entity-missing", "golden pipeline not loaded: "+err.Error())
		} else if pl.GetStatus() != pipeline.StatusSystemStopped || len(pl.ConnectorIDs) != 2 || pl.DLQ.WindowSize != 101 {
			w.violate("C17", "legacy-pipeline-changed", fmt.Sprintf("golden pipeline loaded as status=%d connectors=%v dlq=%+v", pl.GetStatus(), pl.ConnectorIDs, pl.DLQ))
		}
		if _, err := env.st.proc.Get(ctx, "golden-processor"); err != nil {
			w.violate("C17", "legacy-entity-missing", "golden processor not loaded: "+err.Error())
		}
	}
	old, err := env.st.conn.Get(ctx, "old-src")
	if err != nil {
		w.violate("C17", "legacy-entity-missing", "pre-0.4.1 connector not migrated: "+err.Error())
		return
	}
	if st, ok := old.State.(connector.SourceState); !ok || string(st.Position) != "old-pos" || old.Plugin != "builtin:file" || old.PipelineID != "golden-pipeline" || len(old.ProcessorIDs) != 1 {
		w.violate("C17", "legacy-position-changed", fmt.Sprintf("pre-0.4.1 connector migrated as %+v state %#v", old.Config, old.State))
	}
	for _, d := range olds {
		c, err := env.st.conn.Get(ctx, d.id)
		if err != nil {
			w.violate("C17", "legacy-entity-missing", fmt.Sprintf("pre-0.4.1 connector %s not migrated: %v", d.id, err))
			return
		}
		var gotPos []byte
		switch st := c.State.(type) {
		case connector.SourceState:
			gotPos = st.Position
		case connector.DestinationState:
			gotPos = st.Positions["s"]
		}
		sameSettings := len(c.Config.Settings) == len(d.settings)
		for k, v := range d.settings {
			if got, ok := c.Config.Settings[k]; !ok || got != v {
				sameSettings = false
			}
		}
		sameProcs := len(c.ProcessorIDs) == len(d.procs)
		for i := 0; sameProcs && i < len(d.procs); i++ {
			sameProcs = c.ProcessorIDs[i] == d.procs[i]
		}
		if !sameSettings || !sameProcs || c.Config.Name != d.name || c.Plugin != d.plugin || c.PipelineID != "golden-pipeline" || c.Type.String() != d.typ ||
			!bytes.Equal(gotPos, d.pos) || !c.CreatedAt.Equal(d.created) || !c.UpdatedAt.Equal(d.updated) {
			w.violate("C17", "legacy-connector-changed", fmt.Sprintf("pre-0.4.1 connector %s (one of %d) was stored as type=%s name=%q plugin=%s settings=%v processors=%v position=%x created=%s updated=%s and is read back as type=%s name=%q plugin=%s settings=%v processors=%v position=%x created=%s updated=%s",
				d.id, len(olds)+1, d.typ, d.name, d.plugin, d.settings, d.procs, d.pos, d.created.Format(time.RFC3339Nano), d.updated.Format(time.RFC3339Nano),
				c.Type, c.Config.Name, c.Plugin, c.Config.Settings, c.ProcessorIDs, gotPos, c.CreatedAt.Format(time.RFC3339Nano), c.UpdatedAt.Format(time.RFC3339Nano)))
			return
		}
	}
	// and the migrated form survives one more restart unchanged
	fresh := w.newStack()
	if err := fresh.conn.Init(ctx); err != nil {
		w.violate("C17", "legacy-load-failed", "second start after migration: "+err.Error())
		return
	}
	if d := diffViews(view{"c": canon(old)}, func() view {
		c2, err := fresh.conn.Get(ctx, "old-src")
		if err != nil {
			return view{"c": "missing"}
		}
		return view{"c": canon(c2)}
	}()); d != "" {
		w.violate("C17", "legacy-migration-not-stable", "migrated connector changes on the next restart: "+d)
	}
}
