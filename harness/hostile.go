package harness

import (
	"github.com/conduitio/conduit-commons/opencdc"
	"github.com/conduitio/conduit-connector-protocol/pconnector"
	sdk "github.com/conduitio/conduit-processor-sdk"
)

// hostile reply shapes (C09). Filled in by the hostile family; nil = behave.
func (w *World) hostileDstAcks(s *simDstStream, d decision) *pconnector.DestinationRunResponse {
	return nil
}

func (w *World) hostileProcResult(p *simProc, recs []opencdc.Record, d decision) []sdk.ProcessedRecord {
	return nil
}
