package harness

// Hostile reply shapes (C09): legal-but-hostile plugin behaviour. Every shape is chosen
// from the scheduler-provided argument of the released call, so it is part of the schedule.

import (
	"fmt"

	"github.com/conduitio/conduit-commons/opencdc"
	"github.com/conduitio/conduit-connector-protocol/pconnector"
	sdk "github.com/conduitio/conduit-processor-sdk"
	"github.com/conduitio/conduit/pkg/foundation/cerrors"
)

var procShapes = []string{"more", "zero", "nil-entry", "mixed", "poschange", "posempty", "multi-degenerate", "nil-error", "multi-poschange", "more-multi", "all-nil"}

func (w *World) hostileProcResult(p *simProc, recs []opencdc.Record, d decision) []sdk.ProcessedRecord {
	pct := p.sys.cfg.Hostile
	if pct <= 0 || len(recs) == 0 || (d.arg>>4)%100 >= pct {
		return nil
	}
	shape := procShapes[(d.arg>>11)%len(procShapes)]
	rev := p.settings["rev"]
	ok := func(r opencdc.Record) sdk.ProcessedRecord {
		return sdk.SingleRecord(stamp(r, p.sys.cfg.ID, p.gen, rev))
	}
	var out []sdk.ProcessedRecord
	switch shape {
	case "more":
		for _, r := range recs {
			out = append(out, ok(r))
		}
		out = append(out, ok(recs[len(recs)-1]), ok(recs[0]))
	case "zero":
		out = []sdk.ProcessedRecord{}
	case "nil-entry":
		for i, r := range recs {
			if i == len(recs)/2 {
				out = append(out, nil)
			} else {
				out = append(out, ok(r))
			}
		}
	case "all-nil":
		out = make([]sdk.ProcessedRecord, len(recs))
	case "mixed":
		for i, r := range recs {
			switch i % 4 {
			case 0:
				out = append(out, ok(r))
			case 1:
				out = append(out, sdk.FilterRecord{})
			case 2:
				out = append(out, sdk.ErrorRecord{Error: cerrors.Errorf("sim-hostile mixed error %d", i)})
			default:
				out = append(out, sdk.MultiRecord{p.piece(r, 0), p.piece(r, 1)})
			}
		}
	case "poschange":
		for i, r := range recs {
			c := stamp(r, p.sys.cfg.ID, p.gen, rev)
			if i == 0 {
				c.Position = opencdc.Position("sim-changed-" + string(r.Position))
			}
			out = append(out, sdk.SingleRecord(c))
		}
	case "posempty":
		for i, r := range recs {
			c := stamp(r, p.sys.cfg.ID, p.gen, rev)
			if i == len(recs)-1 {
				c.Position = nil
			}
			out = append(out, sdk.SingleRecord(c))
		}
	case "multi-degenerate":
		for i, r := range recs {
			if i%2 == 0 {
				out = append(out, sdk.MultiRecord{})
			} else {
				out = append(out, sdk.MultiRecord{p.piece(r, 0)})
			}
		}
	case "nil-error":
		for i, r := range recs {
			if i == 0 {
				out = append(out, sdk.ErrorRecord{})
			} else {
				out = append(out, ok(r))
			}
		}
	case "multi-poschange":
		for _, r := range recs {
			a, b := p.piece(r, 0), p.piece(r, 1)
			a.Position = opencdc.Position("sim-piece-a")
			b.Position = nil
			out = append(out, sdk.MultiRecord{a, b})
		}
	case "more-multi":
		for _, r := range recs {
			out = append(out, sdk.MultiRecord{p.piece(r, 0), p.piece(r, 1)})
		}
		out = append(out, sdk.MultiRecord{p.piece(recs[0], 2), p.piece(recs[0], 3)})
	}
	ids := make([]RecID, 0, len(recs))
	for _, r := range recs {
		id, _ := recIDOf(r)
		ids = append(ids, id)
	}
	w.probe("hostile-proc-" + shape)
	w.log(Event{Kind: "PROC_HOSTILE", Ent: p.sys.cfg.ID, Inc: p.inc, N: p.gen, IDs: ids, Note: fmt.Sprintf("%s in=%d out=%d", shape, len(recs), len(out))})
	return out
}

var ackShapes = []string{"empty", "extra", "reversed", "unknown", "duplicate", "wrong-first"}

func (w *World) hostileDstAcks(s *simDstStream, d decision) *pconnector.DestinationRunResponse {
	sys, sess := s.p.sys, s.p.sess
	pct := sys.cfg.HostilePct
	if pct <= 0 || (d.arg>>4)%100 >= pct || len(sess.pending) == 0 {
		return nil
	}
	shape := ackShapes[(d.arg>>11)%len(ackShapes)]
	var acks []pconnector.DestinationRunResponseAck
	pend := sess.pending
	switch shape {
	case "empty":
		acks = []pconnector.DestinationRunResponseAck{}
	case "extra":
		for _, pw := range pend {
			acks = append(acks, pconnector.DestinationRunResponseAck{Position: pw.pos})
		}
		acks = append(acks, pconnector.DestinationRunResponseAck{Position: opencdc.Position("sim-extra-ack")})
	case "reversed":
		for i := len(pend) - 1; i >= 0; i-- {
			acks = append(acks, pconnector.DestinationRunResponseAck{Position: pend[i].pos})
		}
		if len(pend) == 1 {
			acks[0].Position = opencdc.Position("sim-unknown-ack")
		}
	case "unknown":
		acks = append(acks, pconnector.DestinationRunResponseAck{Position: opencdc.Position("sim-unknown-ack")})
	case "duplicate":
		acks = append(acks, pconnector.DestinationRunResponseAck{Position: pend[0].pos}, pconnector.DestinationRunResponseAck{Position: pend[0].pos})
	case "wrong-first":
		acks = append(acks, pconnector.DestinationRunResponseAck{Position: nil})
	}
	w.probe("hostile-ack-" + shape)
	w.log(Event{Kind: "DST_HOSTILE", Ent: sys.cfg.ID, Inc: s.p.inc, Sess: sess.n, Note: fmt.Sprintf("%s pending=%d acks=%d", shape, len(pend), len(acks))})
	// a positive ack that names a pending write is a confirmation of that write, in whatever
	// order or company it arrives: record it as such (the oracle must not under-count them)
	kind := "DST_ACK"
	if sys.isDLQ {
		kind = "DLQ_ACK"
	}
	for _, a := range acks {
		for i, pw := range sess.pending {
			if string(pw.pos) == string(a.Position) && a.Error == "" {
				w.log(Event{Kind: kind, Ent: sys.cfg.ID, Inc: s.p.inc, Sess: sess.n, IDs: []RecID{pw.id}, Pos: []string{posHex(pw.pos)}, OK: true, Note: "hostile"})
				sess.pending = append(sess.pending[:i:i], sess.pending[i+1:]...)
				break
			}
		}
	}
	return &pconnector.DestinationRunResponse{Acks: acks}
}

// piece builds split piece j of r with its own identity (path extended by /hj).
func (p *simProc) piece(r opencdc.Record, j int) opencdc.Record {
	pr := stamp(r, p.sys.cfg.ID, p.gen, p.settings["rev"])
	if id, ok := recIDOf(r); ok {
		id.Path = fmt.Sprintf("%s/h%d", id.Path, j)
		pr.Key = opencdc.RawData(id.marker())
		pr.Payload.After = opencdc.RawData("payload " + id.marker())
	}
	return pr
}
