package harness

// C13: live processor reconfiguration.

import (
	"fmt"
	"sort"
	"strings"
)

type reconfState struct {
	lastIdx     map[string]int // proc|src|sess -> last record index processed
	lastGen     map[string]int // proc|src|sess -> generation that processed it
	openSeq     map[string]int // proc|gen -> event number at which that generation was opened
	seen        map[string]bool
	failedGens  map[string]map[int]bool // proc -> generations whose open failed
	appliedRev  map[string]string
	inflight    map[string]int    // processor -> reconfigure requests in flight
	tainted     map[string]bool   // processor -> some of the requests in flight overlapped
	refusedGens map[string]string // proc|gen -> error the request that built this generation returned
}

func newReconfState() *reconfState {
	return &reconfState{lastIdx: map[string]int{}, lastGen: map[string]int{}, openSeq: map[string]int{}, seen: map[string]bool{}, failedGens: map[string]map[int]bool{}, appliedRev: map[string]string{}, inflight: map[string]int{}, tainted: map[string]bool{}, refusedGens: map[string]string{}}
}

func (o *Oracles) onReconfEvent(w *World, e *Event) {
	if w.cfg.Scenario != "reconfigure" && w.cfg.Scenario != "apply" {
		return
	}
	r := o.rc
	switch e.Kind {
	case "PROC_OPEN":
		if e.OK {
			r.openSeq[fmt.Sprintf("%s|%d", e.Ent, e.N)] = e.Seq
		}
		if !e.OK {
			if r.failedGens[e.Ent] == nil {
				r.failedGens[e.Ent] = map[int]bool{}
			}
			r.failedGens[e.Ent][e.N] = true
		}
	case "PROC_PROCESS":
		if w.cfg.Scenario == "apply" && o.ap.liveRev != nil && len(o.ap.inFlight) == 0 && len(w.faultFired) == 0 && !o.ctl.userStopOK && !o.ctl.stopInFlight() && !draining(w) {
			if i := strings.LastIndexByte(e.Note, '|'); i >= 0 {
				if want, ok := o.ap.liveRev[e.Ent]; ok && e.Note[i+1:] != want && e.Note != "stuck" {
					w.violate("C16", "running-pipeline-differs-from-config", fmt.Sprintf("processor %s of the running pipeline handles records with settings revision %q while the configuration (Export) says %q: the last apply left the running pipeline and the configuration in disagreement", e.Ent, e.Note[i+1:], want))
				}
			}
		}
		pc := w.procs[e.Ent]
		if pc == nil || pc.cfg.Workers > 1 {
			return // parallel workers process out of order by design; only single nodes are live-reconfigurable
		}
		if msg, ok := r.refusedGens[fmt.Sprintf("%s|%d", e.Ent, e.N)]; ok {
			w.violate("C13", "refused-reconfigure-took-effect", fmt.Sprintf("the live reconfigure request that built generation %d of processor %s returned an error (%s), yet records %v are processed with that configuration: the caller was told the old one keeps running", e.N, e.Ent, msg, e.IDs))
		}
		if r.failedGens[e.Ent][e.N] {
			w.violate("C13", "failed-generation-used", fmt.Sprintf("processor %s generation %d failed to open but processed records %v", e.Ent, e.N, e.IDs))
		}
		for _, id := range e.IDs {
			k := fmt.Sprintf("%s|%s|%d", e.Ent, id.Src, id.N)
			dk := fmt.Sprintf("%s|%s", k, id.String())
			if r.seen[dk] {
				w.violate("C13", "record-processed-twice", fmt.Sprintf("record %s was processed twice by %s", id, e.Ent))
			}
			r.seen[dk] = true
			if last, ok := r.lastIdx[k]; ok {
				if id.Idx <= last {
					w.violate("C13", "processing-out-of-order", fmt.Sprintf("%s processed record %s after record %d of the same source", e.Ent, id, last))
				}
				// "older" is decided by when a configuration was switched in, not by the number it
				// got when it was built (overlapping requests are applied in the order they were staged)
				if r.openSeq[fmt.Sprintf("%s|%d", e.Ent, e.N)] < r.openSeq[fmt.Sprintf("%s|%d", e.Ent, r.lastGen[k])] {
					w.violate("C13", "old-configuration-after-new", fmt.Sprintf("%s processed record %s with generation %d after an earlier record was processed with generation %d", e.Ent, id, e.N, r.lastGen[k]))
				}
			}
			r.lastIdx[k] = id.Idx
			r.lastGen[k] = e.N
		}
	}
}

// onReconfigureResult checks the return value of one live reconfigure request.
func (o *Oracles) onReconfigureResult(w *World, procID, rev string, openFail, cancelled, applied bool, err error) {
	if w.cfg.Engine == "v2" {
		if err == nil {
			w.violate("C13", "v2-accepted-live-reconfigure", "the v2 engine accepted a live processor reconfiguration it cannot perform")
		}
		return
	}
	if openFail && err == nil {
		w.violate("C13", "open-failure-not-reported", fmt.Sprintf("the new configuration of %s cannot be opened, yet ReconfigureProcessor returned success", procID))
	}
	if applied {
		o.rc.appliedRev[procID] = rev
		w.probe("reconfigure-applied")
	} else if err != nil {
		w.probe("reconfigure-refused")
		_ = strings.Contains
	}
}

// checkGenerations: after the pipeline has stopped, every generation that was opened has been
// torn down exactly once, and nothing that failed to open was ever used.
func (o *Oracles) checkGenerations(w *World) {
	ids := make([]string, 0, len(w.procs))
	for id := range w.procs {
		ids = append(ids, id)
	}
	sort.Strings(ids)
	for _, id := range ids {
		ps := w.procs[id]
		for gen, n := range ps.opened {
			want := n
			if ps.torndown[gen] < want || ps.torndown[gen] > want+ps.failedOpens[gen] {
				w.violate("C13", "teardown-mismatch", fmt.Sprintf("processor %s generation %d was opened %d time(s) and torn down %d time(s)", id, gen, n, ps.torndown[gen]))
			}
		}
	}
	// records processed after a successful swap carry the new revision: checked through
	// generation monotonicity (onReconfEvent) - the newest applied generation is the largest
}

// draining: a source of the live run has been told to stop - the pipeline is on its way to
// "cleanly stopped" whatever the control calls that asked for it returned (two stop requests
// that interleave can both report "stop already triggered" after stopping one source each).
func draining(w *World) bool {
	for _, sys := range w.srcs {
		if sys.sess != nil && !sys.sess.closed && sys.sess.inc == w.inc && sys.sess.stopping {
			return true
		}
	}
	return false
}
