module verif/harness

go 1.26.8

require (
	github.com/conduitio/conduit v0.0.0
	github.com/conduitio/conduit-commons v0.6.0
	github.com/conduitio/conduit-connector-protocol v0.9.5
	github.com/conduitio/conduit-processor-sdk v0.5.2-0.20260727035706-8376e49ad512
	github.com/google/uuid v1.6.0
	github.com/rs/zerolog v1.35.1
)

require (
	dario.cat/mergo v1.0.1 // indirect
	github.com/Masterminds/goutils v1.1.1 // indirect
	github.com/Masterminds/semver/v3 v3.5.0 // indirect
	github.com/Masterminds/sprig/v3 v3.3.0 // indirect
	github.com/beorn7/perks v1.0.1 // indirect
	github.com/cespare/xxhash/v2 v2.3.0 // indirect
	github.com/conduitio/yaml/v3 v3.3.0 // indirect
	github.com/fatih/color v1.19.0 // indirect
	github.com/gammazero/deque v1.2.1 // indirect
	github.com/go-viper/mapstructure/v2 v2.5.0 // indirect
	github.com/goccy/go-json v0.10.6 // indirect
	github.com/golang/protobuf v1.5.4 // indirect
	github.com/google/go-cmp v0.7.0 // indirect
	github.com/hamba/avro/v2 v2.31.0 // indirect
	github.com/hashicorp/go-hclog v1.6.3 // indirect
	github.com/hashicorp/go-plugin v1.8.0 // indirect
	github.com/hashicorp/yamux v0.1.2 // indirect
	github.com/huandu/xstrings v1.5.0 // indirect
	github.com/jpillora/backoff v1.0.0 // indirect
	github.com/json-iterator/go v1.1.12 // indirect
	github.com/matryer/is v1.4.1 // indirect
	github.com/mattn/go-colorable v0.1.15 // indirect
	github.com/mattn/go-isatty v0.0.24 // indirect
	github.com/mitchellh/copystructure v1.2.0 // indirect
	github.com/mitchellh/mapstructure v1.5.0 // indirect
	github.com/mitchellh/reflectwalk v1.0.2 // indirect
	github.com/modern-go/concurrent v0.0.0-20180306012644-bacd9c7ef1dd // indirect
	github.com/modern-go/reflect2 v1.0.2 // indirect
	github.com/munnerz/goautoneg v0.0.0-20191010083416-a7dc8b61c822 // indirect
	github.com/oklog/run v1.2.0 // indirect
	github.com/prometheus/client_golang v1.24.1 // indirect
	github.com/prometheus/client_model v0.6.2 // indirect
	github.com/prometheus/common v0.70.1 // indirect
	github.com/prometheus/procfs v0.21.1 // indirect
	github.com/shopspring/decimal v1.4.0 // indirect
	github.com/sourcegraph/conc v0.3.1-0.20240121214520-5f936abd7ae8 // indirect
	github.com/spf13/cast v1.10.0 // indirect
	github.com/twmb/go-cache v1.3.0 // indirect
	go.uber.org/mock v0.6.0 // indirect
	golang.org/x/crypto v0.54.0 // indirect
	golang.org/x/net v0.57.0 // indirect
	golang.org/x/sys v0.47.0 // indirect
	golang.org/x/text v0.40.0 // indirect
	golang.org/x/xerrors v0.0.0-20240903120638-7835f813f4da // indirect
	google.golang.org/genproto/googleapis/rpc v0.0.0-20260803160001-6ac0973c030d // indirect
	google.golang.org/grpc v1.83.0 // indirect
	google.golang.org/protobuf v1.36.12 // indirect
	gopkg.in/tomb.v2 v2.0.0-20161208151619-d5d1b5820637 // indirect
)

replace github.com/conduitio/conduit => /repo
