package harness

// Fake processor plugins: scripted result kinds, generation stamps.

import (
	"context"
	"fmt"
	"strings"

	"github.com/conduitio/conduit-commons/config"
	"github.com/conduitio/conduit-commons/opencdc"
	sdk "github.com/conduitio/conduit-processor-sdk"
	"github.com/conduitio/conduit/pkg/foundation/cerrors"
	"github.com/conduitio/conduit/pkg/plugin/processor/egress"
)

type ProcSys struct {
	w    *World
	cfg  ProcCfg
	gens int
	// settings generation: bumped by reconfigure so stamps show which config handled a record
	opened      map[int]int // gen -> open count
	torndown    map[int]int
	failedOpens map[int]int  // gen -> opens that returned an error (the engine may or may not tear those down)
	tdFail      map[int]bool // gen -> Teardown of this generation returns an error (scripted)
}

func newProcSys(w *World, cfg ProcCfg) *ProcSys {
	return &ProcSys{w: w, cfg: cfg, opened: map[int]int{}, torndown: map[int]int{}, failedOpens: map[int]int{}, tdFail: map[int]bool{}}
}

// ProcPluginService implements processor.PluginService.
type ProcPluginService struct {
	w   *World
	inc int
}

func (s *ProcPluginService) NewProcessor(ctx context.Context, pluginName string, id string, _ egress.Policy) (sdk.Processor, error) {
	sys := s.w.procs[id]
	if sys == nil && s.w.direct {
		// sequential API families create processors under generated ids
		if pluginName == "" {
			return nil, cerrors.New("sim: empty processor plugin name")
		}
		sys = newProcSys(s.w, ProcCfg{ID: id})
		s.w.procs[id] = sys
	}
	if sys == nil {
		return nil, cerrors.Errorf("sim: unknown processor %q", id)
	}
	if s.w.direct {
		s.w.procNewCount++
		if s.w.procNewFailAt > 0 && s.w.procNewCount == s.w.procNewFailAt {
			return nil, errProcNew
		}
	}
	d := s.w.park(ctx, "proc.new", id, s.inc, nil, "plugin.err")
	if d.fault != "" {
		if cl := clientOf(ctx); cl != "" && s.w.or != nil && s.w.or.ap != nil {
			if call := s.w.or.ap.inFlight[cl]; call != nil {
				for _, t := range call.targets {
					if t == id {
						call.procFault = "it cannot be built: " + d.fault
					}
				}
			}
		}
		return nil, faultErr(ctx, d, "new-processor", id)
	}
	sys.gens++
	return &simProc{sys: sys, inc: s.inc, gen: sys.gens}, nil
}

type simProc struct {
	sdk.UnimplementedProcessor
	sys      *ProcSys
	inc      int
	gen      int
	settings map[string]string
}

func (p *simProc) Specification() (sdk.Specification, error) {
	return sdk.Specification{Name: "sim", Version: "v0"}, nil
}

func (p *simProc) Configure(ctx context.Context, c config.Config) error {
	p.settings = c
	return nil
}

func (p *simProc) Open(ctx context.Context) error {
	w := p.sys.w
	d := w.park(ctx, "proc.open", p.sys.cfg.ID, p.inc, nil, "plugin.err")
	fail := d.fault != "" || (p.settings != nil && p.settings["open"] == "fail")
	if fail {
		p.sys.failedOpens[p.gen]++
		w.log(Event{Kind: "PROC_OPEN", Ent: p.sys.cfg.ID, Inc: p.inc, N: p.gen, Err: "open failed"})
		if d.fault == "ctx" {
			return ctx.Err()
		}
		return cerrors.Errorf("sim-fault open processor %s gen %d", p.sys.cfg.ID, p.gen)
	}
	p.sys.opened[p.gen]++
	w.log(Event{Kind: "PROC_OPEN", Ent: p.sys.cfg.ID, Inc: p.inc, N: p.gen, OK: true, Note: p.settings["rev"]})
	return nil
}

func (p *simProc) Teardown(ctx context.Context) error {
	w := p.sys.w
	d := w.park(ctx, "proc.teardown", p.sys.cfg.ID, p.inc, nil)
	_ = d
	p.sys.torndown[p.gen]++
	if p.sys.tdFail[p.gen] {
		w.log(Event{Kind: "PROC_TEARDOWN", Ent: p.sys.cfg.ID, Inc: p.inc, N: p.gen, Err: "teardown failed"})
		return cerrors.Errorf("sim-fault teardown processor %s gen %d", p.sys.cfg.ID, p.gen)
	}
	w.log(Event{Kind: "PROC_TEARDOWN", Ent: p.sys.cfg.ID, Inc: p.inc, N: p.gen})
	return nil
}

// liveGen: the newest generation that is open and not torn down (0 if none).
func (s *ProcSys) liveGen() int {
	g := 0
	for gen, n := range s.opened {
		if n > s.torndown[gen] && gen > g {
			g = gen
		}
	}
	return g
}

func (p *simProc) hash(id RecID, salt string) int {
	h := uint64(p.sys.w.cfg.Seed)*0x9e3779b97f4a7c15 ^ uint64(id.Idx+1)*0xbf58476d1ce4e5b9
	for _, c := range []byte(p.sys.cfg.ID + "|" + id.Src + "|" + id.Path + "|" + salt) {
		h = (h ^ uint64(c)) * 0x100000001b3
	}
	h ^= h >> 31
	return int(h % 100)
}

// verdict: what this processor does with a record (deterministic per record origin).
func (p *simProc) verdict(id RecID) string {
	c := p.sys.cfg
	h := p.hash(id, "v")
	switch {
	case h < c.ErrorPct:
		return "error"
	case h < c.ErrorPct+c.FilterPct:
		return "filter"
	case h < c.ErrorPct+c.FilterPct+c.SplitPct:
		return "split"
	case h < c.ErrorPct+c.FilterPct+c.SplitPct+c.ModifyPct:
		return "modify"
	}
	return "pass"
}

func stamp(r opencdc.Record, procID string, gen int, rev string) opencdc.Record {
	out := r.Clone()
	if out.Metadata == nil {
		out.Metadata = opencdc.Metadata{}
	}
	out.Metadata["sim.stamps"] = out.Metadata["sim.stamps"] + fmt.Sprintf("%s:%d:%s,", procID, gen, rev)
	return out
}

func (p *simProc) Process(ctx context.Context, recs []opencdc.Record) []sdk.ProcessedRecord {
	w := p.sys.w
	d := w.park(ctx, "proc.process", p.sys.cfg.ID, p.inc, nil)
	_ = d
	if h := w.hostileProcResult(p, recs, d); h != nil {
		return h
	}
	if p.sys.cfg.Stuck {
		// never makes progress: every record is left to be retried
		w.log(Event{Kind: "PROC_PROCESS", Ent: p.sys.cfg.ID, Inc: p.inc, N: p.gen, Note: "stuck"})
		return make([]sdk.ProcessedRecord, len(recs))
	}
	rev := p.settings["rev"]
	n := len(recs)
	// short result: only the first k records are answered, the rest must be retried
	if p.sys.cfg.ShortPct > 0 && n > 1 && d.arg%100 < p.sys.cfg.ShortPct {
		n = 1 + (d.arg/100)%(n-1)
	}
	out := make([]sdk.ProcessedRecord, 0, n)
	ids := make([]RecID, 0, n)
	var kinds strings.Builder
	for i := 0; i < n; i++ {
		r := recs[i]
		id, ok := recIDOf(r)
		if !ok {
			id = RecID{Src: "?", Idx: -1}
		}
		ids = append(ids, id)
		v := p.verdict(id)
		kinds.WriteString(v[:1])
		switch v {
		case "error":
			out = append(out, sdk.ErrorRecord{Error: cerrors.Errorf("sim-procerr %s %s/%d%s", p.sys.cfg.ID, id.Src, id.Idx, id.Path)})
		case "filter":
			out = append(out, sdk.FilterRecord{})
		case "split":
			k := 2 + p.hash(id, "k")%3
			pieces := make(sdk.MultiRecord, 0, k)
			for j := 0; j < k; j++ {
				pr := stamp(r, p.sys.cfg.ID, p.gen, rev)
				pid := id
				pid.Path = fmt.Sprintf("%s/%d", id.Path, j)
				pr.Key = opencdc.RawData(pid.marker())
				pr.Payload.After = opencdc.RawData("payload " + pid.marker())
				pieces = append(pieces, pr)
			}
			out = append(out, pieces)
		case "modify":
			mr := stamp(r, p.sys.cfg.ID, p.gen, rev)
			mr.Metadata["sim.mod."+p.sys.cfg.ID] = "1"
			out = append(out, sdk.SingleRecord(mr))
		default:
			out = append(out, sdk.SingleRecord(stamp(r, p.sys.cfg.ID, p.gen, rev)))
		}
	}
	w.log(Event{Kind: "PROC_PROCESS", Ent: p.sys.cfg.ID, Inc: p.inc, N: p.gen, IDs: ids, Note: kinds.String() + "|" + rev})
	return out
}
