package harness

import (
	"math/rand/v2"
	"time"
)

// genFamily fills in the family-specific parts of a configuration: processors,
// outcome scripts, fault kinds and the client plan.
func genFamily(c *Config, r *rand.Rand) {
	switch c.Family {
	case "drain":
		genDrain(c, r)
	case "hostile":
		genHostile(c, r)
	case "recover":
		genRecover(c, r)
	case "force":
		genForce(c, r)
	case "control":
		genControl(c, r)
	case "reconf":
		genReconf(c, r)
	case "api", "persist":
		genApi(c, r)
	case "import":
		genImport(c, r)
	case "apply":
		genApply(c, r)
	default:
		genPipe(c, r)
	}
}

func totalRecords(c *Config) int {
	n := 0
	for _, s := range c.Sources {
		n += s.NRec
	}
	return n
}

func addProcs(c *Config, r *rand.Rand) {
	for i := range c.Sources {
		c.Sources[i].Procs = genProcs(r, c.Sources[i].ID, 2, c)
	}
	c.PipeProcs = genProcs(r, "pl", 3, c)
	for i := range c.Dests {
		c.Dests[i].Procs = genProcs(r, c.Dests[i].ID, 2, c)
	}
	// conditions: some processors only apply to records whose attribute k is "1"
	for _, p := range allProcs(c) {
		if r.IntN(4) == 0 {
			p.Cond = condTemplate(r.IntN(3))
		}
	}
}

// genPipe: data-flow runs for C01-C05, C07, C08 with optional nacks, faults, a
// mid-run stop/start, and crash/restart.
func genPipe(c *Config, r *rand.Rand) {
	addProcs(c, r)
	// destination nack scripts
	for i := range c.Dests {
		c.Dests[i].NackPct = pick(r, 0, 0, 0, 5, 20, 50)
	}
	c.DLQ.NackPct = pick(r, 0, 0, 0, 0, 10)
	if r.IntN(5) == 0 || (c.Focus == "C07" && r.IntN(2) == 0) {
		// dead-letter bursts: many consecutive nacks in one batch, a DLQ that rejects some of
		// them, a window wide enough (or disabled) for the run to go on
		for i := range c.Dests {
			c.Dests[i].NackPct = pick(r, 50, 80, 100)
		}
		c.DLQ.NackPct = pick(r, 0, 20, 40, 60)
		c.DLQ.WindowSize = pick(r, 0, 0, 6, 10)
		if c.DLQ.WindowSize > 0 {
			c.DLQ.Threshold = c.DLQ.WindowSize - 1
		}
		for i := range c.Sources {
			c.Sources[i].MaxBatch = 3 + r.IntN(6)
		}
	}
	// processor error scripts (records the DLQ must absorb)
	if r.IntN(3) == 0 {
		ps := allProcs(c)
		if len(ps) > 0 {
			ps[r.IntN(len(ps))].ErrorPct = pick(r, 5, 20)
		}
	}
	if c.Engine == "v2" && r.IntN(3) == 0 {
		ps := allProcs(c)
		if len(ps) > 0 {
			p := ps[r.IntN(len(ps))]
			p.SplitPct = pick(r, 10, 30, 100)
			p.Workers = 1
			// a second splitting stage: pieces of an already split record are split again
			if len(ps) > 1 && (r.IntN(3) == 0 || (c.Focus == "C08" && r.IntN(2) == 0)) {
				q := ps[r.IntN(len(ps))]
				if q != p {
					q.SplitPct = pick(r, 30, 60, 100)
					q.Workers = 1
				}
			}
		}
	}
	if c.Engine == "v2" && r.IntN(3) == 0 {
		ps := allProcs(c)
		if len(ps) > 0 {
			ps[r.IntN(len(ps))].ShortPct = pick(r, 20, 60)
		}
	}
	// faults
	c.MaxFaults = pick(r, 0, 0, 1, 2, 3)
	if c.MaxFaults > 0 {
		for _, f := range []string{"db.err", "ack.senderr", "dst.write.err", "dst.ack.err", "src.recv.err", "plugin.err"} {
			if r.IntN(3) == 0 {
				c.Faults[f] = pick(r, 5, 20, 80)
			}
		}
	}
	total := totalRecords(c)
	plan := []Action{
		{Client: "main", Op: "setup"},
		{Client: "main", Op: "start"},
	}
	// chaos client: stop/start or crash in the middle
	switch r.IntN(6) {
	case 0:
		plan = append(plan,
			Action{Client: "chaos", Op: "stopwait", When: pick(r, "acked", "emitted", "written"), N: r.IntN(total + 1)},
			Action{Client: "chaos", Op: "start"},
		)
	case 1:
		n := 1 + r.IntN(3)
		for i := 0; i < n; i++ {
			plan = append(plan, Action{Client: "chaos", Op: "crash", When: pick(r, "acked", "emitted", "written", "step"), N: r.IntN(total*(i+1)/n + 1)})
		}
	case 2:
		plan = append(plan,
			Action{Client: "chaos", Op: "forcestop", When: pick(r, "acked", "emitted", "written"), N: r.IntN(total + 1)},
			Action{Client: "chaos", Op: "wait"},
			Action{Client: "chaos", Op: "start"},
		)
	}
	plan = append(plan,
		Action{Client: "main", Op: "settle", When: "quiet"},
		Action{Client: "main", Op: "end"},
	)
	c.Plan = plan
}

func allProcs(c *Config) []*ProcCfg {
	var ps []*ProcCfg
	for i := range c.Sources {
		for j := range c.Sources[i].Procs {
			ps = append(ps, &c.Sources[i].Procs[j])
		}
	}
	for j := range c.PipeProcs {
		ps = append(ps, &c.PipeProcs[j])
	}
	for i := range c.Dests {
		for j := range c.Dests[i].Procs {
			ps = append(ps, &c.Dests[i].Procs[j])
		}
	}
	return ps
}

// genDrain: healthy pipeline (no faults; nacks only where the DLQ tolerates all of
// them), graceful stop at an arbitrary instant: C06's exact postconditions.
func genDrain(c *Config, r *rand.Rand) {
	addProcs(c, r)
	c.Healthy = true
	c.MaxFaults = 0
	if r.IntN(2) == 0 {
		// tolerated nacks: unlimited window
		c.DLQ.WindowSize = 0
		c.DLQ.Threshold = 0
		for i := range c.Dests {
			c.Dests[i].NackPct = pick(r, 0, 10, 30)
		}
		if c.Engine == "v1" && len(c.Dests) > 1 {
			// In the default engine a record rejected by one of several destinations makes
			// the ack of the other branches fail ("message was nacked by another node") and
			// stops the pipeline with an error: such a pipeline is not "healthy" in the sense
			// of C06, whatever the DLQ window tolerates.
			for i := range c.Dests {
				c.Dests[i].NackPct = 0
			}
		}
	}
	c.MaxSimTime = 30 * time.Minute
	total := totalRecords(c)
	stopOp := pick(r, "stopwait", "stopwait", "stop+wait", "stopall")
	c.Plan = []Action{
		{Client: "main", Op: "setup"},
		{Client: "main", Op: "start"},
		{Client: "main", Op: "drain:" + stopOp, When: pick(r, "acked", "emitted", "written", "step", "now"), N: r.IntN(total + 2)},
		{Client: "main", Op: "end"},
	}
	if r.IntN(4) == 0 {
		// a second, concurrent stop request
		c.Plan = append(c.Plan, Action{Client: "other", Op: "stop", When: pick(r, "acked", "emitted"), N: r.IntN(total + 1)})
	}
}

// genHostile: plugins answer with legal-but-hostile shapes (C09). The exact outcome
// oracles are off; what must hold: no panic, no hang, no ack without confirmation,
// positions never altered, results attached to the right record.
func genHostile(c *Config, r *rand.Rand) {
	addProcs(c, r)
	c.Hostile = true
	ps := allProcs(c)
	if len(ps) == 0 {
		c.PipeProcs = []ProcCfg{{ID: "pl-p1", Workers: 1, ModifyPct: 50}}
		ps = allProcs(c)
	}
	what := r.IntN(4)
	if what == 0 || what == 3 {
		n := 1 + r.IntN(len(ps))
		for i := 0; i < n; i++ {
			p := ps[r.IntN(len(ps))]
			p.Hostile = pick(r, 5, 20, 50, 100)
		}
	}
	if what == 1 || what == 3 {
		for i := range c.Dests {
			if r.IntN(2) == 0 {
				c.Dests[i].HostilePct = pick(r, 5, 20, 50)
			}
		}
		c.Dests[r.IntN(len(c.Dests))].HostilePct = pick(r, 5, 20, 50)
	}
	if what == 2 {
		c.HostileSrc = true
		c.Sources[r.IntN(len(c.Sources))].HostilePct = pick(r, 5, 20, 50)
	}
	if c.Engine == "v2" && r.IntN(2) == 0 {
		p := ps[r.IntN(len(ps))]
		p.ShortPct = pick(r, 20, 60)
		if r.IntN(2) == 0 {
			p.SplitPct = pick(r, 10, 30)
		}
	}
	for i := range c.Dests {
		c.Dests[i].NackPct = pick(r, 0, 0, 10)
	}
	c.MaxFaults = pick(r, 0, 0, 1, 2)
	if c.MaxFaults > 0 {
		c.Faults["plugin.err"] = pick(r, 10, 40)
		c.Faults["dst.ack.err"] = pick(r, 0, 20)
	}
	c.Plan = []Action{
		{Client: "main", Op: "setup"},
		{Client: "main", Op: "start"},
		{Client: "main", Op: "settle", When: "quiet"},
		{Client: "main", Op: "end"},
	}
}
