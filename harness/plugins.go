package harness

// Fake connector plugins (source, destination, DLQ) and their streams. These are the
// "outside world" of the engine: their state survives engine crashes.

import (
	"context"
	"encoding/hex"
	"fmt"
	"strconv"
	"strings"

	"github.com/conduitio/conduit-commons/opencdc"
	"github.com/conduitio/conduit-connector-protocol/pconnector"
	"github.com/conduitio/conduit/pkg/foundation/cerrors"
	"github.com/conduitio/conduit/pkg/foundation/log"
	connectorPlugin "github.com/conduitio/conduit/pkg/plugin/connector"
)

// RecID identifies one delivery of one (piece of a) source record.
type RecID struct {
	Src  string `json:"s"`
	Idx  int    `json:"i"`
	N    int    `json:"n"`           // delivery nonce (= source session number)
	Path string `json:"p,omitempty"` // split piece path
}

func (r RecID) String() string {
	s := fmt.Sprintf("%s/%d.%d", r.Src, r.Idx, r.N)
	if r.Path != "" {
		s += "[" + r.Path + "]"
	}
	return s
}

func (r RecID) marker() string {
	return fmt.Sprintf("§%s|%d|%d|%s§", r.Src, r.Idx, r.N, r.Path)
}

func parseMarker(s string) (RecID, bool) {
	a := strings.Index(s, "§")
	if a < 0 {
		return RecID{}, false
	}
	rest := s[a+len("§"):]
	b := strings.Index(rest, "§")
	if b < 0 {
		return RecID{}, false
	}
	parts := strings.Split(rest[:b], "|")
	if len(parts) != 4 {
		return RecID{}, false
	}
	idx, err1 := strconv.Atoi(parts[1])
	n, err2 := strconv.Atoi(parts[2])
	if err1 != nil || err2 != nil {
		return RecID{}, false
	}
	return RecID{Src: parts[0], Idx: idx, N: n, Path: parts[3]}, true
}

// recIDOf extracts the identity a fake source put into a record.
func recIDOf(r opencdc.Record) (RecID, bool) {
	if k, ok := r.Key.(opencdc.RawData); ok {
		if id, ok := parseMarker(string(k)); ok {
			return id, true
		}
	}
	if p, ok := r.Payload.After.(opencdc.RawData); ok {
		if id, ok := parseMarker(string(p)); ok {
			return id, true
		}
	}
	return RecID{}, false
}

// findEmbedded searches a DLQ record's structured payload for the original record identity.
func findEmbedded(v any) (RecID, bool) {
	switch x := v.(type) {
	case []byte:
		return parseMarker(string(x))
	case string:
		return parseMarker(x)
	case opencdc.RawData:
		return parseMarker(string(x))
	case opencdc.StructuredData:
		return findEmbedded(map[string]any(x))
	case map[string]any:
		// "key" first (unchanged by processors), then the rest in fixed order
		if id, ok := findEmbedded(x["key"]); ok {
			return id, true
		}
		for _, k := range []string{"payload", "after", "before"} {
			if id, ok := findEmbedded(x[k]); ok {
				return id, true
			}
		}
	}
	return RecID{}, false
}

func posHex(p opencdc.Position) string { return hex.EncodeToString(p) }

// ---------------------------------------------------------------- source system

type srcRec struct {
	idx int
	pos opencdc.Position
}

type SrcSys struct {
	w        *World
	cfg      SrcCfg
	recs     []srcRec
	posIndex map[string]int
	ackedMax int // highest index acknowledged so far + 1 (pruning watermark)
	sessions int
	sess     *srcSession
	emitted  int // total records emitted over all sessions
	ackedAll int // total acks over all sessions
}

type srcSession struct {
	n        int
	inc      int
	next     int
	emitted  []int
	acked    int
	stopAt   int // -1 = not stopping; otherwise index of the last record that will be emitted
	stopping bool
	running  bool
	closed   bool
	ctx      context.Context
}

func newSrcSys(w *World, cfg SrcCfg) *SrcSys {
	s := &SrcSys{w: w, cfg: cfg, posIndex: map[string]int{}}
	// positions: random-looking, prefix-free (fixed length), not ordered like the index
	for i := 0; i < cfg.NRec; i++ {
		h := uint64(w.cfg.Seed)*0x9e3779b97f4a7c15 + uint64(i+1)*0xbf58476d1ce4e5b9 + uint64(len(cfg.ID))*0x94d049bb133111eb
		for _, c := range []byte(cfg.ID) {
			h = (h ^ uint64(c)) * 0x100000001b3
		}
		h ^= h >> 29
		pos := []byte(fmt.Sprintf("%s-%08x-%d", cfg.ID, uint32(h), i))
		s.recs = append(s.recs, srcRec{idx: i, pos: pos})
		s.posIndex[string(pos)] = i
	}
	return s
}

func (s *SrcSys) record(idx, nonce int) opencdc.Record {
	id := RecID{Src: s.cfg.ID, Idx: idx, N: nonce}
	return opencdc.Record{
		Position:  append(opencdc.Position(nil), s.recs[idx].pos...),
		Operation: opencdc.OperationCreate,
		Metadata:  opencdc.Metadata{"sim.src": s.cfg.ID, "sim.c0": condBit(s.w.cfg.Seed, s.cfg.ID, idx, 0), "sim.c1": condBit(s.w.cfg.Seed, s.cfg.ID, idx, 1), "sim.c2": condBit(s.w.cfg.Seed, s.cfg.ID, idx, 2)},
		Key:       opencdc.RawData(id.marker()),
		Payload:   opencdc.Change{After: opencdc.RawData("payload " + id.marker())},
	}
}

// ---------------------------------------------------------------- dispenser

type simDispenser struct {
	w    *World
	id   string
	inc  int
	name string
}

// PluginService implements the ConnectorPluginService / PluginDispenserFetcher seam.
type PluginService struct {
	w   *World
	inc int
}

// pluginGone is a plugin name no registry knows: a connector can be switched to it through the
// API (an update is validated against the plugin the connector had), after which nothing can
// be dispensed for it - start, and the clean-up of a delete, fail.
const pluginGone = "sim-gone"

func (p *PluginService) NewDispenser(_ log.CtxLogger, name string, connectorID string) (connectorPlugin.Dispenser, error) {
	if name == pluginGone {
		return nil, cerrors.Errorf("sim: plugin %q not found", name)
	}
	return &simDispenser{w: p.w, id: connectorID, inc: p.inc, name: name}, nil
}

func (d *simDispenser) DispenseSpecifier() (connectorPlugin.SpecifierPlugin, error) {
	return nil, cerrors.New("sim: specifier not available")
}

func (d *simDispenser) DispenseSource() (connectorPlugin.SourcePlugin, error) {
	sys := d.w.srcs[d.id]
	if sys == nil {
		return nil, cerrors.Errorf("sim: unknown source %q", d.id)
	}
	dec := d.w.park(nil, "src.dispense", d.id, d.inc, nil, "plugin.err")
	if dec.fault == "plugin.err" {
		return nil, cerrors.Errorf("sim-fault dispense %s", d.id)
	}
	return &simSource{sys: sys, inc: d.inc}, nil
}

func (d *simDispenser) DispenseDestination() (connectorPlugin.DestinationPlugin, error) {
	sys := d.w.dsts[d.id]
	if sys == nil {
		// DLQ connectors are created on the fly by the engine under derived ids
		sys = newDstSys(d.w, DstCfg{ID: d.id, NackPct: d.w.cfg.DLQ.NackPct, MaxAckBatch: 4}, true)
		d.w.dsts[d.id] = sys
	}
	dec := d.w.park(nil, "dst.dispense", d.id, d.inc, nil, "plugin.err")
	if dec.fault == "plugin.err" {
		return nil, cerrors.Errorf("sim-fault dispense %s", d.id)
	}
	return &simDest{sys: sys, inc: d.inc}, nil
}

// ---------------------------------------------------------------- source plugin

type simSource struct {
	sys  *SrcSys
	inc  int
	sess *srcSession
}

func (p *simSource) w() *World { return p.sys.w }

func (p *simSource) Configure(ctx context.Context, _ pconnector.SourceConfigureRequest) (pconnector.SourceConfigureResponse, error) {
	d := p.w().park(ctx, "src.configure", p.sys.cfg.ID, p.inc, nil, "plugin.err")
	if d.fault != "" {
		return pconnector.SourceConfigureResponse{}, faultErr(ctx, d, "configure", p.sys.cfg.ID)
	}
	return pconnector.SourceConfigureResponse{}, nil
}

func faultErr(ctx context.Context, d decision, op, id string) error {
	if d.fault == "ctx" && ctx != nil && ctx.Err() != nil {
		return ctx.Err()
	}
	return cerrors.Errorf("sim-fault %s %s %s @s%d", d.fault, op, id, curStep())
}

// curStep is the scheduler step of the world that is running (one world at a time per process).
var curWorld *World

func curStep() int {
	if curWorld == nil {
		return 0
	}
	return curWorld.step
}

func (p *simSource) Open(ctx context.Context, req pconnector.SourceOpenRequest) (pconnector.SourceOpenResponse, error) {
	d := p.w().park(ctx, "src.open", p.sys.cfg.ID, p.inc, nil, "plugin.err", "stall")
	if d.fault != "" {
		return pconnector.SourceOpenResponse{}, faultErr(ctx, d, "open", p.sys.cfg.ID)
	}
	s := p.sys
	s.sessions++
	sess := &srcSession{n: s.sessions, inc: p.inc, stopAt: -1}
	if len(req.Position) == 0 {
		sess.next = 0
	} else if i, ok := s.posIndex[string(req.Position)]; ok {
		sess.next = i + 1
	} else {
		s.w.log(Event{Kind: "SRC_OPEN", Ent: s.cfg.ID, Inc: p.inc, Sess: sess.n, Pos: []string{posHex(req.Position)}, Err: "unknown position"})
		return pconnector.SourceOpenResponse{}, cerrors.Errorf("sim source %s: unknown position %q", s.cfg.ID, req.Position)
	}
	if s.sess != nil && !s.sess.closed && s.sess.inc == p.inc {
		s.w.violate("C11", "two-open-sessions", fmt.Sprintf("source %s opened (session %d) while session %d of the same incarnation is still open", s.cfg.ID, sess.n, s.sess.n))
	}
	s.sess = sess
	p.sess = sess
	s.w.log(Event{Kind: "SRC_OPEN", Ent: s.cfg.ID, Inc: p.inc, Sess: sess.n, Pos: []string{posHex(req.Position)}, N: sess.next})
	return pconnector.SourceOpenResponse{}, nil
}

func (p *simSource) Run(ctx context.Context, st pconnector.SourceRunStream) error {
	d := p.w().park(ctx, "src.run", p.sys.cfg.ID, p.inc, nil, "plugin.err")
	if d.fault != "" {
		return faultErr(ctx, d, "run", p.sys.cfg.ID)
	}
	if p.sess == nil {
		return cerrors.New("sim source: Run before Open")
	}
	p.sess.running = true
	p.sess.ctx = ctx
	st.(*simSrcStream).bind(p, ctx)
	return nil
}

func (p *simSource) NewStream() pconnector.SourceRunStream { return &simSrcStream{} }

func (p *simSource) Stop(ctx context.Context, _ pconnector.SourceStopRequest) (pconnector.SourceStopResponse, error) {
	d := p.w().park(ctx, "src.stop", p.sys.cfg.ID, p.inc, nil, "plugin.err")
	if d.fault != "" {
		return pconnector.SourceStopResponse{}, faultErr(ctx, d, "stop", p.sys.cfg.ID)
	}
	s, sess := p.sys, p.sess
	if sess == nil {
		return pconnector.SourceStopResponse{}, cerrors.New("sim source: Stop before Open")
	}
	if !sess.stopping {
		sess.stopping = true
		last := sess.next - 1
		// the SDK may promise a few records it has already read but not yet handed over
		extra := 0
		if d.arg%3 == 0 {
			extra = (d.arg / 3) % 3
		}
		if last+extra >= len(s.recs) {
			extra = len(s.recs) - 1 - last
		}
		sess.stopAt = last + extra
	}
	var pos opencdc.Position
	if sess.stopAt >= 0 && (len(sess.emitted) > 0 || sess.stopAt >= sess.next) {
		at := sess.stopAt
		if sess.stopAt == sess.next-1 && len(sess.emitted) > 0 {
			// nothing more is promised: the last position is that of the record handed over last
			// (after a hostile re-send that is the re-sent record, not the highest one)
			at = sess.emitted[len(sess.emitted)-1]
		}
		pos = append(pos, s.recs[at].pos...)
	} else {
		// nothing emitted in this session and nothing promised
		sess.stopAt = sess.next - 1
	}
	s.w.log(Event{Kind: "SRC_STOP", Ent: s.cfg.ID, Inc: p.inc, Sess: sess.n, Pos: []string{posHex(pos)}, N: sess.stopAt})
	return pconnector.SourceStopResponse{LastPosition: pos}, nil
}

func (p *simSource) Teardown(ctx context.Context, _ pconnector.SourceTeardownRequest) (pconnector.SourceTeardownResponse, error) {
	d := p.w().park(ctx, "src.teardown", p.sys.cfg.ID, p.inc, nil, "plugin.err")
	sessN := 0
	if p.sess != nil {
		p.sess.closed = true
		sessN = p.sess.n
	}
	p.sys.w.log(Event{Kind: "SRC_TEARDOWN", Ent: p.sys.cfg.ID, Inc: p.inc, Sess: sessN, Err: d.fault})
	if d.fault != "" && d.fault != "ctx" {
		return pconnector.SourceTeardownResponse{}, faultErr(ctx, d, "teardown", p.sys.cfg.ID)
	}
	return pconnector.SourceTeardownResponse{}, nil
}

func (p *simSource) LifecycleOnCreated(ctx context.Context, _ pconnector.SourceLifecycleOnCreatedRequest) (pconnector.SourceLifecycleOnCreatedResponse, error) {
	return pconnector.SourceLifecycleOnCreatedResponse{}, nil
}

func (p *simSource) LifecycleOnUpdated(ctx context.Context, _ pconnector.SourceLifecycleOnUpdatedRequest) (pconnector.SourceLifecycleOnUpdatedResponse, error) {
	return pconnector.SourceLifecycleOnUpdatedResponse{}, nil
}

func (p *simSource) LifecycleOnDeleted(ctx context.Context, _ pconnector.SourceLifecycleOnDeletedRequest) (pconnector.SourceLifecycleOnDeletedResponse, error) {
	return pconnector.SourceLifecycleOnDeletedResponse{}, nil
}

// simSrcStream is the duplex stream of a source session; only the client half is used.
type simSrcStream struct {
	p   *simSource
	ctx context.Context
}

func (s *simSrcStream) bind(p *simSource, ctx context.Context)   { s.p, s.ctx = p, ctx }
func (s *simSrcStream) Client() pconnector.SourceRunStreamClient { return s }
func (s *simSrcStream) Server() pconnector.SourceRunStreamServer { panic("sim: server side unused") }

func (s *simSrcStream) canEmit() bool {
	sess, sys := s.p.sess, s.p.sys
	if sess.closed || sess.next >= len(sys.recs) {
		return false
	}
	if sess.stopping && sess.next > sess.stopAt {
		return false
	}
	return true
}

func (s *simSrcStream) Recv() (pconnector.SourceRunResponse, error) {
	w, sys, sess := s.p.w(), s.p.sys, s.p.sess
	d := w.park(s.ctx, "src.recv", sys.cfg.ID, s.p.inc, s.canEmit, "src.recv.err", "stall")
	if d.fault != "" {
		if d.fault == "ctx" {
			return pconnector.SourceRunResponse{}, s.ctx.Err()
		}
		w.log(Event{Kind: "SRC_RECV_ERR", Ent: sys.cfg.ID, Inc: s.p.inc, Sess: sess.n})
		return pconnector.SourceRunResponse{}, cerrors.Errorf("sim-fault %s %s @s%d", d.fault, sys.cfg.ID, w.step)
	}
	max := len(sys.recs) - sess.next
	if sess.stopping && sess.stopAt-sess.next+1 < max {
		max = sess.stopAt - sess.next + 1
	}
	if max > sys.cfg.MaxBatch {
		max = sys.cfg.MaxBatch
	}
	n := 1 + d.arg%max
	hostileShape := ""
	if sys.cfg.HostilePct > 0 && (d.arg>>4)%100 < sys.cfg.HostilePct {
		hostileShape = []string{"dup-position", "empty-position", "empty-batch"}[(d.arg>>11)%3]
		w.probe("hostile-src-" + hostileShape)
	}
	if hostileShape == "empty-batch" {
		w.log(Event{Kind: "SRC_HOSTILE", Ent: sys.cfg.ID, Inc: s.p.inc, Sess: sess.n, Note: hostileShape})
		return pconnector.SourceRunResponse{Records: []opencdc.Record{}}, nil
	}
	recs := make([]opencdc.Record, 0, n)
	ids := make([]RecID, 0, n)
	pos := make([]string, 0, n)
	for i := 0; i < n; i++ {
		idx := sess.next
		recs = append(recs, sys.record(idx, sess.n))
		ids = append(ids, RecID{Src: sys.cfg.ID, Idx: idx, N: sess.n})
		pos = append(pos, posHex(sys.recs[idx].pos))
		sess.emitted = append(sess.emitted, idx)
		sess.next++
		sys.emitted++
	}
	switch hostileShape {
	case "dup-position":
		// the plugin re-sends the first record of the batch (same position, same content)
		recs = append(recs, recs[0].Clone())
		ids = append(ids, ids[0])
		pos = append(pos, pos[0])
		sess.emitted = append(sess.emitted, ids[0].Idx)
	case "empty-position":
		recs[len(recs)-1].Position = nil
	}
	w.log(Event{Kind: "SRC_EMIT", Ent: sys.cfg.ID, Inc: s.p.inc, Sess: sess.n, IDs: ids, Pos: pos, Note: hostileShape})
	return pconnector.SourceRunResponse{Records: recs}, nil
}

func (s *simSrcStream) Send(req pconnector.SourceRunRequest) error {
	w, sys, sess := s.p.w(), s.p.sys, s.p.sess
	d := w.park(s.ctx, "src.ack", sys.cfg.ID, s.p.inc, nil, "ack.senderr")
	if d.fault != "" {
		if d.fault == "ctx" {
			return s.ctx.Err()
		}
		w.log(Event{Kind: "SRC_ACK_SENDERR", Ent: sys.cfg.ID, Inc: s.p.inc, Sess: sess.n})
		return cerrors.Errorf("sim-fault %s %s", d.fault, sys.cfg.ID)
	}
	pos := make([]string, len(req.AckPositions))
	ids := make([]RecID, len(req.AckPositions))
	for i, p := range req.AckPositions {
		pos[i] = posHex(p)
		if idx, ok := sys.posIndex[string(p)]; ok {
			ids[i] = RecID{Src: sys.cfg.ID, Idx: idx, N: sess.n}
			if idx+1 > sys.ackedMax {
				sys.ackedMax = idx + 1
			}
		} else {
			ids[i] = RecID{Src: sys.cfg.ID, Idx: -1, N: sess.n}
		}
		sess.acked++
		sys.ackedAll++
	}
	w.log(Event{Kind: "SRC_ACK", Ent: sys.cfg.ID, Inc: s.p.inc, Sess: sess.n, IDs: ids, Pos: pos})
	return nil
}

// ---------------------------------------------------------------- destination system

type pendingWrite struct {
	id      RecID
	ok      bool // identity parsed
	pos     opencdc.Position
	emb     RecID // DLQ: embedded original
	embOK   bool
	errText string // DLQ: nack error text carried
	nodeID  string
}

type DstSys struct {
	w        *World
	cfg      DstCfg
	isDLQ    bool
	sessions int
	sess     *dstSession
	writes   int
}

type dstSession struct {
	n       int
	inc     int
	pending []pendingWrite
	closed  bool
	ctx     context.Context
	stopped bool // Stop was called: a batching destination flushes what it holds
}

func newDstSys(w *World, cfg DstCfg, isDLQ bool) *DstSys {
	return &DstSys{w: w, cfg: cfg, isDLQ: isDLQ}
}

// outcome is the scripted verdict of this destination for a record: a deterministic
// function of (seed, destination, record origin), so a retry sees the same answer.
func (s *DstSys) outcome(id RecID) string {
	if s.cfg.NackPct <= 0 {
		return ""
	}
	h := uint64(s.w.cfg.Seed)*0x9e3779b97f4a7c15 ^ uint64(id.Idx+1)*0xbf58476d1ce4e5b9
	for _, c := range []byte(s.cfg.ID + "|" + id.Src + "|" + id.Path) {
		h = (h ^ uint64(c)) * 0x100000001b3
	}
	h ^= h >> 31
	if int(h%100) < s.cfg.NackPct {
		return fmt.Sprintf("sim-nack %s %s/%d%s", s.cfg.ID, id.Src, id.Idx, id.Path)
	}
	return ""
}

type simDest struct {
	sys  *DstSys
	inc  int
	sess *dstSession
}

func (p *simDest) w() *World { return p.sys.w }

func (p *simDest) kind(op string) string {
	if p.sys.isDLQ {
		return "dlq." + op
	}
	return "dst." + op
}

func (p *simDest) Configure(ctx context.Context, _ pconnector.DestinationConfigureRequest) (pconnector.DestinationConfigureResponse, error) {
	d := p.w().park(ctx, p.kind("configure"), p.sys.cfg.ID, p.inc, nil, "plugin.err")
	if d.fault != "" {
		return pconnector.DestinationConfigureResponse{}, faultErr(ctx, d, "configure", p.sys.cfg.ID)
	}
	return pconnector.DestinationConfigureResponse{}, nil
}

func (p *simDest) Open(ctx context.Context, _ pconnector.DestinationOpenRequest) (pconnector.DestinationOpenResponse, error) {
	d := p.w().park(ctx, p.kind("open"), p.sys.cfg.ID, p.inc, nil, "plugin.err", "stall")
	if d.fault != "" {
		return pconnector.DestinationOpenResponse{}, faultErr(ctx, d, "open", p.sys.cfg.ID)
	}
	s := p.sys
	s.sessions++
	sess := &dstSession{n: s.sessions, inc: p.inc}
	if s.sess != nil && !s.sess.closed && s.sess.inc == p.inc {
		s.w.violate("C11", "two-open-sessions", fmt.Sprintf("destination %s opened (session %d) while session %d of the same incarnation is still open", s.cfg.ID, sess.n, s.sess.n))
	}
	s.sess = sess
	p.sess = sess
	s.w.log(Event{Kind: "DST_OPEN", Ent: s.cfg.ID, Inc: p.inc, Sess: sess.n})
	return pconnector.DestinationOpenResponse{}, nil
}

func (p *simDest) Run(ctx context.Context, st pconnector.DestinationRunStream) error {
	d := p.w().park(ctx, p.kind("run"), p.sys.cfg.ID, p.inc, nil, "plugin.err")
	if d.fault != "" {
		return faultErr(ctx, d, "run", p.sys.cfg.ID)
	}
	if p.sess == nil {
		return cerrors.New("sim destination: Run before Open")
	}
	p.sess.ctx = ctx
	st.(*simDstStream).bind(p, ctx)
	return nil
}

func (p *simDest) NewStream() pconnector.DestinationRunStream { return &simDstStream{} }

func (p *simDest) Stop(ctx context.Context, req pconnector.DestinationStopRequest) (pconnector.DestinationStopResponse, error) {
	d := p.w().park(ctx, p.kind("stop"), p.sys.cfg.ID, p.inc, nil, "plugin.err")
	if d.fault != "" {
		return pconnector.DestinationStopResponse{}, faultErr(ctx, d, "stop", p.sys.cfg.ID)
	}
	sessN := 0
	if p.sess != nil {
		sessN = p.sess.n
		p.sess.stopped = true
	}
	p.sys.w.log(Event{Kind: "DST_STOP", Ent: p.sys.cfg.ID, Inc: p.inc, Sess: sessN, Pos: []string{posHex(req.LastPosition)}})
	return pconnector.DestinationStopResponse{}, nil
}

func (p *simDest) Teardown(ctx context.Context, _ pconnector.DestinationTeardownRequest) (pconnector.DestinationTeardownResponse, error) {
	d := p.w().park(ctx, p.kind("teardown"), p.sys.cfg.ID, p.inc, nil, "plugin.err")
	sessN := 0
	if p.sess != nil {
		p.sess.closed = true
		sessN = p.sess.n
	}
	p.sys.w.log(Event{Kind: "DST_TEARDOWN", Ent: p.sys.cfg.ID, Inc: p.inc, Sess: sessN, Err: d.fault})
	if d.fault != "" && d.fault != "ctx" {
		return pconnector.DestinationTeardownResponse{}, faultErr(ctx, d, "teardown", p.sys.cfg.ID)
	}
	return pconnector.DestinationTeardownResponse{}, nil
}

func (p *simDest) LifecycleOnCreated(ctx context.Context, _ pconnector.DestinationLifecycleOnCreatedRequest) (pconnector.DestinationLifecycleOnCreatedResponse, error) {
	return pconnector.DestinationLifecycleOnCreatedResponse{}, nil
}

func (p *simDest) LifecycleOnUpdated(ctx context.Context, _ pconnector.DestinationLifecycleOnUpdatedRequest) (pconnector.DestinationLifecycleOnUpdatedResponse, error) {
	return pconnector.DestinationLifecycleOnUpdatedResponse{}, nil
}

func (p *simDest) LifecycleOnDeleted(ctx context.Context, _ pconnector.DestinationLifecycleOnDeletedRequest) (pconnector.DestinationLifecycleOnDeletedResponse, error) {
	return pconnector.DestinationLifecycleOnDeletedResponse{}, nil
}

type simDstStream struct {
	p   *simDest
	ctx context.Context
}

func (s *simDstStream) bind(p *simDest, ctx context.Context)          { s.p, s.ctx = p, ctx }
func (s *simDstStream) Client() pconnector.DestinationRunStreamClient { return s }
func (s *simDstStream) Server() pconnector.DestinationRunStreamServer {
	panic("sim: server side unused")
}

func (s *simDstStream) Send(req pconnector.DestinationRunRequest) error {
	w, sys, sess := s.p.w(), s.p.sys, s.p.sess
	d := w.park(s.ctx, s.p.kind("write"), sys.cfg.ID, s.p.inc, nil, "dst.write.err", "stall")
	if d.fault != "" {
		if d.fault == "ctx" {
			return s.ctx.Err()
		}
		w.log(Event{Kind: "DST_WRITE_ERR", Ent: sys.cfg.ID, Inc: s.p.inc, Sess: sess.n, N: len(req.Records)})
		return cerrors.Errorf("sim-fault %s %s @s%d", d.fault, sys.cfg.ID, w.step)
	}
	ids := make([]RecID, 0, len(req.Records))
	pos := make([]string, 0, len(req.Records))
	kind := "DST_WRITE"
	if sys.isDLQ {
		kind = "DLQ_WRITE"
	}
	for _, r := range req.Records {
		pw := pendingWrite{pos: append(opencdc.Position(nil), r.Position...)}
		if sys.isDLQ {
			pw.emb, pw.embOK = findEmbedded(r.Payload.After)
			pw.id, pw.ok = pw.emb, pw.embOK
			pw.errText, _ = r.Metadata.GetConduitDLQNackError()
			pw.nodeID, _ = r.Metadata.GetConduitDLQNackNodeID()
		} else {
			pw.id, pw.ok = recIDOf(r)
		}
		if !pw.ok {
			pw.id = RecID{Src: "?", Idx: -1}
		}
		sess.pending = append(sess.pending, pw)
		ids = append(ids, pw.id)
		pos = append(pos, posHex(r.Position))
		sys.writes++
		if sys.isDLQ {
			w.log(Event{Kind: kind, Ent: sys.cfg.ID, Inc: s.p.inc, Sess: sess.n, IDs: []RecID{pw.id}, Pos: []string{posHex(r.Position)}, Err: pw.errText, Note: pw.nodeID, OK: pw.ok})
		}
	}
	if !sys.isDLQ {
		ev := Event{Kind: kind, Ent: sys.cfg.ID, Inc: s.p.inc, Sess: sess.n, IDs: ids, Pos: pos}
		ev.Note = stampsOf(req.Records)
		w.log(ev)
	}
	if w.cfg.DstLinger {
		// the plugin has the records, the caller has not got its return yet: the scheduler may
		// deliver acknowledgments (Recv) first, as a real stream can
		if d := w.park(s.ctx, s.p.kind("write-ret"), sys.cfg.ID, s.p.inc, nil); d.fault == "ctx" {
			return s.ctx.Err()
		}
	}
	return nil
}

func stampsOf(recs []opencdc.Record) string {
	var b strings.Builder
	for i, r := range recs {
		if i > 0 {
			b.WriteByte(';')
		}
		b.WriteString(r.Metadata["sim.stamps"])
	}
	return b.String()
}

func (s *simDstStream) Recv() (pconnector.DestinationRunResponse, error) {
	w, sys, sess := s.p.w(), s.p.sys, s.p.sess
	d := w.park(s.ctx, s.p.kind("ackrecv"), sys.cfg.ID, s.p.inc, func() bool {
		if hb := sys.cfg.HoldBatch; hb > 1 && !sess.stopped && !sys.isDLQ {
			return len(sess.pending) >= hb // (an SDK destination with sdk.batch.size > 1 and no batch delay)
		}
		return len(sess.pending) > 0
	}, "dst.ack.err", "stall")
	if d.fault != "" {
		if d.fault == "ctx" {
			return pconnector.DestinationRunResponse{}, s.ctx.Err()
		}
		w.log(Event{Kind: "DST_ACK_ERR", Ent: sys.cfg.ID, Inc: s.p.inc, Sess: sess.n})
		return pconnector.DestinationRunResponse{}, cerrors.Errorf("sim-fault %s %s @s%d", d.fault, sys.cfg.ID, w.step)
	}
	max := len(sess.pending)
	if max > sys.cfg.MaxAckBatch {
		max = sys.cfg.MaxAckBatch
	}
	if max < 1 {
		max = 1
	}
	n := 1 + d.arg%max
	if h := w.hostileDstAcks(s, d); h != nil {
		return *h, nil
	}
	acks := make([]pconnector.DestinationRunResponseAck, 0, n)
	kind := "DST_ACK"
	if sys.isDLQ {
		kind = "DLQ_ACK"
	}
	for i := 0; i < n; i++ {
		pw := sess.pending[0]
		sess.pending = sess.pending[1:]
		errText := sys.outcome(pw.id)
		acks = append(acks, pconnector.DestinationRunResponseAck{Position: pw.pos, Error: errText})
		w.log(Event{Kind: kind, Ent: sys.cfg.ID, Inc: s.p.inc, Sess: sess.n, IDs: []RecID{pw.id}, Pos: []string{posHex(pw.pos)}, OK: errText == "", Err: errText})
	}
	return pconnector.DestinationRunResponse{Acks: acks}, nil
}

// condBit is the value of condition attribute k of a source record ("1" or "0").
func condBit(seed int64, src string, idx, k int) string {
	h := uint64(seed)*0x9e3779b97f4a7c15 ^ uint64(idx+1)*0xbf58476d1ce4e5b9 ^ uint64(k+1)*0x94d049bb133111eb
	for _, c := range []byte(src) {
		h = (h ^ uint64(c)) * 0x100000001b3
	}
	h ^= h >> 29
	if h%3 == 0 {
		return "0"
	}
	return "1"
}

// condTemplate is the condition string for attribute k ("" = unconditional).
func condTemplate(k int) string {
	return fmt.Sprintf(`{{ eq (index .Metadata "sim.c%d") "1" }}`, k)
}

// condHolds evaluates a condition produced by condTemplate for a record origin.
func condHolds(seed int64, cond string, src string, idx int) bool {
	if cond == "" {
		return true
	}
	if cond == condNever {
		return false
	}
	for k := 0; k < 3; k++ {
		if cond == condTemplate(k) {
			return condBit(seed, src, idx, k) == "1"
		}
	}
	return true
}
