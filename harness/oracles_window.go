package harness

import (
	"fmt"
	"regexp"
	"strconv"
	"strings"
)

// C07, window arithmetic: a reference model of the dead-letter queue's nack window, written
// from the property text and sharing nothing with either engine's dlqWindow: the window is the
// plain list of the most recent `size` outcomes; a rejection is tolerated while the rejections
// among them, counting it, do not exceed the threshold; size 0 removes the limit; threshold 0
// tolerates none; after the first refusal the pipeline stops.
type winModel struct {
	size, thr int
	last      []bool // true = rejection; at most size entries, oldest first
	refused   bool
	outcomes  strings.Builder // "a"/"n" history for messages
}

func (m *winModel) push(nack bool) {
	if m.size == 0 {
		return
	}
	m.last = append(m.last, nack)
	if len(m.last) > m.size {
		m.last = m.last[1:]
	}
}

func (m *winModel) ack() {
	m.outcomes.WriteByte('a')
	m.push(false)
}

// wouldTolerate: a rejection arriving now is within the configured limit.
func (m *winModel) wouldTolerate() bool {
	if m.refused {
		return false
	}
	if m.size == 0 {
		return true
	}
	n := 1
	keep := m.last
	if len(keep) >= m.size {
		keep = keep[len(keep)-(m.size-1):]
	}
	for _, x := range keep {
		if x {
			n++
		}
	}
	return n <= m.thr
}

func (m *winModel) nack() bool {
	ok := m.wouldTolerate()
	m.outcomes.WriteByte('n')
	if !ok {
		m.refused = true
		return false
	}
	m.push(true)
	return true
}

// windowModelApplies: one source (the window's input order is then the read order, C04), every
// source record has exactly one outcome (no filtering, splitting, short or conditional
// processors), scripted plugins, and no injected fault so far in this run.
func (o *Oracles) windowModelApplies(w *World) bool {
	c := w.cfg
	if len(c.Sources) != 1 || c.Hostile || len(w.faultFired) > 0 {
		return false
	}
	for _, p := range allProcs(c) {
		if p.FilterPct > 0 || p.SplitPct > 0 || p.ShortPct > 0 || p.Cond != "" || p.Stuck {
			return false
		}
	}
	return true
}

func (o *Oracles) winOf(w *World, s *sessState) *winModel {
	if s.win == nil {
		s.win = &winModel{size: w.cfg.DLQ.WindowSize, thr: w.cfg.DLQ.Threshold}
	}
	return s.win
}

// onWindowOutcome: a record of the session was acknowledged to its source, either delivered
// (dlq=false) or dead-lettered (dlq=true), in read order.
func (o *Oracles) onWindowOutcome(w *World, s *sessState, src string, idx int, dlq bool) {
	if s == nil || s.winOff {
		return
	}
	if !o.windowModelApplies(w) {
		s.winOff = true // the outcome sequence of this run is no longer known exactly
		return
	}
	m := o.winOf(w, s)
	if !dlq {
		m.ack()
		return
	}
	if !m.nack() {
		w.violate("C07", "rejection-tolerated-beyond-window", fmt.Sprintf("record %s/%d was dead-lettered and acknowledged although the rejections among the most recent %d outcomes, counting it, exceed the threshold %d (outcomes of this run so far, a=delivered n=rejected: %s): the pipeline had to stop with this record unacknowledged", src, idx, m.size, m.thr, m.outcomes.String()))
		return
	}
	w.probe("window-tolerated-rejection")
}

// onThresholdStop: the run ended with the engine's "nack threshold exceeded" error; errText
// carries the rejection that was refused (the fake destination's message names the record).
func (o *Oracles) onThresholdStop(w *World, errText string) {
	if !o.windowModelApplies(w) || w.cfg.DLQ.NackPct > 0 {
		return
	}
	for _, p := range allProcs(w.cfg) {
		if p.ErrorPct > 0 {
			return // (rejections by processors are not reconstructed here)
		}
	}
	src := w.cfg.Sources[0].ID
	m := thresholdRe.FindStringSubmatch(errText)
	if m == nil || m[1] != src {
		return
	}
	idx, _ := strconv.Atoi(m[2])
	var s *sessState
	for k, x := range o.sess {
		if strings.HasPrefix(k, src+"#") && (s == nil || x.seq > s.seq) {
			s = x
		}
	}
	if s == nil || s.winOff {
		return
	}
	rejected := func(i int) bool {
		for lk := range o.nacked {
			if lk.Src == src && lk.Idx == i && lk.N == s.seq {
				return true
			}
		}
		return false
	}
	// the outcomes of this run, in read order, up to the refused record
	model := &winModel{size: w.cfg.DLQ.WindowSize, thr: w.cfg.DLQ.Threshold}
	found := false
	for _, i := range s.emitted {
		if i == idx {
			found = true
			break
		}
		if rejected(i) {
			if !model.nack() {
				return // (an earlier refusal: reported, if at all, where it happened)
			}
		} else {
			model.ack()
		}
	}
	if !found || !rejected(idx) {
		return
	}
	w.probe("window-refused-rejection")
	if model.wouldTolerate() {
		w.violate("C07", "rejection-refused-within-window", fmt.Sprintf("the pipeline stopped with \"nack threshold exceeded\" at record %s/%d although the rejections among the most recent %d outcomes, counting it, do not exceed the threshold %d (outcomes of this run before it, a=delivered n=rejected: %s)", src, idx, model.size, model.thr, model.outcomes.String()))
	}
}

var thresholdRe = regexp.MustCompile(`nack threshold exceeded.*sim-nack \S+ (\S+)/(\d+)`)
