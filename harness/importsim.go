package harness

// Sequential provisioning simulation (C15): chains of pipeline configurations drawn from
// a grammar are imported one after the other; every single store-operation failure and
// every processor-plugin failure of every import is enumerated.

import (
	"context"
	"fmt"
	"math/rand/v2"
	"sort"

	"github.com/conduitio/conduit-commons/opencdc"
	"github.com/conduitio/conduit/pkg/connector"
	"github.com/conduitio/conduit/pkg/foundation/cerrors"
	"github.com/conduitio/conduit/pkg/provisioning"
	pconfig "github.com/conduitio/conduit/pkg/provisioning/config"
)

type ImpProc struct {
	ID       string            `json:"id"`
	Plugin   string            `json:"plugin"`
	Settings map[string]string `json:"settings,omitempty"`
	Workers  int               `json:"workers,omitempty"`
	Cond     string            `json:"cond,omitempty"`
}

type ImpConn struct {
	ID       string            `json:"id"`
	Type     string            `json:"type"`
	Plugin   string            `json:"plugin"`
	Name     string            `json:"name,omitempty"`
	Settings map[string]string `json:"settings,omitempty"`
	Procs    []ImpProc         `json:"procs,omitempty"`
}

type ImpPipe struct {
	Name   string            `json:"name"`
	Desc   string            `json:"desc,omitempty"`
	Conns  []ImpConn         `json:"conns"`
	Procs  []ImpProc         `json:"procs,omitempty"`
	HasDLQ bool              `json:"has_dlq,omitempty"`
	DLQSet map[string]string `json:"dlq_settings,omitempty"`
	Window int               `json:"window,omitempty"`
	Thresh int               `json:"thresh,omitempty"`
}

const importPipelineID = "imp"

func (p ImpPipe) toConfig() pconfig.Pipeline {
	conv := func(ps []ImpProc) []pconfig.Processor {
		if ps == nil {
			return nil
		}
		out := make([]pconfig.Processor, len(ps))
		for i, x := range ps {
			out[i] = pconfig.Processor{ID: x.ID, Plugin: x.Plugin, Settings: x.Settings, Workers: x.Workers, Condition: x.Cond}
		}
		return out
	}
	c := pconfig.Pipeline{ID: importPipelineID, Status: pconfig.StatusStopped, Name: p.Name, Description: p.Desc, Processors: conv(p.Procs)}
	for _, x := range p.Conns {
		c.Connectors = append(c.Connectors, pconfig.Connector{ID: x.ID, Type: x.Type, Plugin: x.Plugin, Name: x.Name, Settings: x.Settings, Processors: conv(x.Procs)})
	}
	if p.HasDLQ {
		w, t := p.Window, p.Thresh
		c.DLQ = pconfig.DLQ{Plugin: "sim-dlq", Settings: p.DLQSet, WindowSize: &w, WindowNackThreshold: &t}
	}
	return pconfig.Enrich(c)
}

func genImpProcs(r *rand.Rand, prefix string, max int) []ImpProc {
	n := r.IntN(max + 1)
	var ps []ImpProc
	for i := 0; i < n; i++ {
		ps = append(ps, ImpProc{ID: fmt.Sprintf("%s%d", prefix, i+1), Plugin: "sim-proc", Settings: genSettings(r), Workers: pick(r, 0, 1, 2, 4), Cond: pick(r, "", "", condTemplate(0), condTemplate(1))})
	}
	return ps
}

func genImpPipe(r *rand.Rand) ImpPipe {
	p := ImpPipe{Name: pick(r, "imported", "imp ünï", "x"), Desc: pick(r, "", "d"), Procs: genImpProcs(r, "pp", 4)}
	ns, nd := 1+r.IntN(3), 1+r.IntN(3)
	for i := 0; i < ns; i++ {
		p.Conns = append(p.Conns, ImpConn{ID: fmt.Sprintf("s%d", i+1), Type: "source", Plugin: "sim-src", Name: pick(r, "", "src"), Settings: genSettings(r), Procs: genImpProcs(r, "sp", 4)})
	}
	for i := 0; i < nd; i++ {
		p.Conns = append(p.Conns, ImpConn{ID: fmt.Sprintf("d%d", i+1), Type: "destination", Plugin: "sim-dst", Name: pick(r, "", "dst"), Settings: genSettings(r), Procs: genImpProcs(r, "dp", 4)})
	}
	if r.IntN(2) == 0 {
		p.HasDLQ = true
		p.Window = r.IntN(6)
		if p.Window > 0 {
			p.Thresh = r.IntN(p.Window)
		}
		p.DLQSet = genSettings(r)
	}
	return p
}

func cloneImp(p ImpPipe) ImpPipe {
	cp := func(ps []ImpProc) []ImpProc {
		if ps == nil {
			return nil
		}
		out := make([]ImpProc, len(ps))
		for i, x := range ps {
			x.Settings = cloneMap(x.Settings)
			out[i] = x
		}
		return out
	}
	q := p
	q.DLQSet = cloneMap(p.DLQSet)
	q.Procs = cp(p.Procs)
	q.Conns = make([]ImpConn, len(p.Conns))
	for i, c := range p.Conns {
		c.Settings = cloneMap(c.Settings)
		c.Procs = cp(c.Procs)
		q.Conns[i] = c
	}
	return q
}

func cloneMap(m map[string]string) map[string]string {
	if m == nil {
		return nil
	}
	out := make(map[string]string, len(m))
	for k, v := range m {
		out[k] = v
	}
	return out
}

// mutate applies 1-3 random edits (field change, insertion, deletion, reorder).
func mutateImp(r *rand.Rand, p ImpPipe, gen *int) ImpPipe {
	q := cloneImp(p)
	editProcs := func(ps []ImpProc, prefix string) []ImpProc {
		switch r.IntN(6) {
		case 0: // insert
			*gen++
			np := ImpProc{ID: fmt.Sprintf("%sn%d", prefix, *gen), Plugin: "sim-proc", Settings: genSettings(r), Workers: pick(r, 0, 1, 3), Cond: pick(r, "", condTemplate(2))}
			at := r.IntN(len(ps) + 1)
			ps = append(ps[:at:at], append([]ImpProc{np}, ps[at:]...)...)
		case 1: // delete
			if len(ps) > 0 {
				at := r.IntN(len(ps))
				ps = append(ps[:at:at], ps[at+1:]...)
			}
		case 2: // reorder
			if len(ps) > 1 {
				i, j := r.IntN(len(ps)), r.IntN(len(ps))
				ps[i], ps[j] = ps[j], ps[i]
			}
		case 3: // settings
			if len(ps) > 0 {
				ps[r.IntN(len(ps))].Settings = genSettings(r)
			}
		case 4: // workers / condition
			if len(ps) > 0 {
				i := r.IntN(len(ps))
				ps[i].Workers = pick(r, 0, 1, 2, 5)
				ps[i].Cond = pick(r, "", condTemplate(0), condTemplate(1))
			}
		case 5: // delete all but one / all
			if len(ps) > 2 {
				ps = ps[:r.IntN(2)]
			}
		}
		return ps
	}
	for n := 1 + r.IntN(3); n > 0; n-- {
		switch r.IntN(9) {
		case 0:
			q.Name = pick(r, "imported", "renamed", "imp ünï")
		case 1:
			q.Desc = pick(r, "", "d", "other")
		case 2:
			q.Procs = editProcs(q.Procs, "pp")
		case 3, 4:
			if len(q.Conns) > 0 {
				i := r.IntN(len(q.Conns))
				q.Conns[i].Procs = editProcs(q.Conns[i].Procs, q.Conns[i].ID+"p")
			}
		case 5:
			if len(q.Conns) > 0 {
				i := r.IntN(len(q.Conns))
				q.Conns[i].Settings = genSettings(r)
				q.Conns[i].Name = pick(r, "", "n2")
			}
		case 6: // add / remove a connector
			if r.IntN(2) == 0 || len(q.Conns) <= 2 {
				*gen++
				t := pick(r, "source", "destination")
				q.Conns = append(q.Conns, ImpConn{ID: fmt.Sprintf("c%d", *gen), Type: t, Plugin: "sim-" + t[:3], Settings: genSettings(r), Procs: genImpProcs(r, fmt.Sprintf("c%dp", *gen), 3)})
			} else {
				at := r.IntN(len(q.Conns))
				q.Conns = append(q.Conns[:at:at], q.Conns[at+1:]...)
			}
		case 7: // reorder connectors
			if len(q.Conns) > 1 {
				i, j := r.IntN(len(q.Conns)), r.IntN(len(q.Conns))
				q.Conns[i], q.Conns[j] = q.Conns[j], q.Conns[i]
			}
		case 8:
			q.HasDLQ = true
			q.Window = r.IntN(6)
			q.Thresh = 0
			if q.Window > 0 {
				q.Thresh = r.IntN(q.Window)
			}
			q.DLQSet = genSettings(r)
		}
	}
	return q
}

func genImport(c *Config, r *rand.Rand) {
	c.Scenario = "import"
	gen := 0
	chain := []ImpPipe{genImpPipe(r)}
	for n := 1 + r.IntN(4); n > 0; n-- {
		chain = append(chain, mutateImp(r, chain[len(chain)-1], &gen))
	}
	c.ImportChain = chain
	c.ImportViaPlan = r.IntN(2) == 0
	c.Plan = []Action{{Client: "main", Op: "import-experiment"}, {Client: "main", Op: "end"}}
}

// ---------------------------------------------------------------- experiment

type impEnv struct {
	st   *Stack
	prov *provisioning.Service
}

func (w *World) newImpEnv() *impEnv {
	w.db = newSimStore(w)
	w.db.passthrough = true
	st := w.newStack()
	return &impEnv{st: st, prov: provisioning.NewService(st.db, st.log, st.pipe, st.conn, st.proc, st.plug, st.life, "")}
}

// doImport imports cfg through the plain Import entry point or through Plan + ApplyPlan.
func (e *impEnv) doImport(ctx context.Context, cfg pconfig.Pipeline, viaPlan bool) error {
	if !viaPlan {
		return e.prov.Import(ctx, cfg)
	}
	d, err := e.prov.Plan(ctx, cfg)
	if err != nil {
		return err
	}
	_, err = e.prov.ApplyPlan(ctx, cfg, d.Hash)
	return err
}

func exportCanon(ctx context.Context, e *impEnv) string {
	c, err := e.prov.Export(ctx, importPipelineID)
	if err != nil {
		return "export-error: " + firstLine(err.Error())
	}
	return canon(c)
}

func wantCanon(c pconfig.Pipeline) string { return canon(c) }

func connStates(ctx context.Context, st *Stack) map[string]string {
	out := map[string]string{}
	for id, c := range st.conn.List(ctx) {
		out[id+"|"+c.Type.String()] = canon(c.State)
	}
	return out
}

func (s *Sim) importExperiment() {
	w := s.w
	ctx := context.Background()
	w.direct = true
	defer func() { w.direct = false }()
	chain := w.cfg.ImportChain
	viaPlan := w.cfg.ImportViaPlan
	storeCounts := make([]int, len(chain))
	procCounts := make([]int, len(chain))

	run := func(failImport, failStoreOp, failProcNew int) {
		env := w.newImpEnv()
		w.procNewCount, w.procNewFailAt = 0, -1
		for i, ip := range chain {
			cfg := ip.toConfig()
			oldExport := exportCanon(ctx, env)
			durBefore := copyDurable(w.db.durable)
			memBefore := env.st.memView(ctx, false)
			statesBefore := connStates(ctx, env.st)
			w.db.opCount, w.db.failAt, w.db.lastFailed = 0, -1, ""
			w.procNewCount, w.procNewFailAt = 0, -1
			if i == failImport {
				w.db.failAt = failStoreOp
				w.procNewFailAt = failProcNew
			}
			err := env.doImport(ctx, cfg, viaPlan)
			w.db.failAt, w.procNewFailAt = -1, -1
			if failImport < 0 {
				storeCounts[i], procCounts[i] = w.db.opCount, w.procNewCount
			}
			w.stepsServed++
			tag := "import"
			if i == failImport {
				if w.db.lastFailed != "" {
					tag = "import/" + w.db.lastFailed
				} else if failProcNew > 0 {
					tag = "import/new-processor"
				}
			}
			if err != nil {
				if i != failImport {
					w.violate("C15", "valid-import-failed", fmt.Sprintf("import #%d of a valid configuration failed without any injected fault: %s", i, firstLine(err.Error())))
					return
				}
				// atomic failure: previous configuration fully retained
				if got := exportCanon(ctx, env); got != oldExport {
					w.violate("C15", "failed-import-changed-config:"+tag, fmt.Sprintf("import #%d failed (%s) but the exported configuration changed: %s", i, firstLine(err.Error()), diffViews(view{"cfg": oldExport}, view{"cfg": got})))
				}
				if d := diffDurable(durBefore, copyDurable(w.db.durable)); d != "" {
					w.violate("C15", "failed-import-changed-store:"+tag, fmt.Sprintf("import #%d failed (%s) but the store changed: %s", i, firstLine(err.Error()), d))
				}
				if d := diffViews(memBefore, env.st.memView(ctx, false)); d != "" {
					w.violate("C15", "failed-import-changed-memory:"+tag, fmt.Sprintf("import #%d failed (%s) but the in-memory entities changed: %s", i, firstLine(err.Error()), d))
				}
			} else {
				// converged: export equals the (enriched) configuration, a new plan is empty
				if got, want := exportCanon(ctx, env), wantCanon(exportable(cfg)); got != want {
					w.violate("C15", "import-did-not-converge", fmt.Sprintf("after a successful import #%d the exported configuration differs from the imported one: %s", i, diffViews(view{"cfg": want}, view{"cfg": got})))
				}
				if d, perr := env.prov.Plan(ctx, cfg); perr != nil {
					w.violate("C15", "plan-failed-after-import", firstLine(perr.Error()))
				} else if !d.Empty() {
					w.violate("C15", "plan-not-empty-after-import", fmt.Sprintf("after a successful import #%d planning the same configuration again still lists %d change(s), first: %+v", i, len(d.Changes), d.Changes[0]))
				}
				// positions of connectors that persist with the same id and type are kept byte for byte
				after := connStates(ctx, env.st)
				for k, v := range statesBefore {
					if nv, ok := after[k]; ok && nv != v {
						w.violate("C15", "connector-state-lost", fmt.Sprintf("import #%d changed the stored state of connector %s: %s -> %s", i, k, v, nv))
					}
				}
				// idempotence: importing the same configuration again writes nothing
				dur := copyDurable(w.db.durable)
				w.db.opCount = 0
				if err2 := env.doImport(ctx, cfg, viaPlan); err2 != nil {
					w.violate("C15", "reimport-failed", fmt.Sprintf("importing the same configuration a second time failed: %s", firstLine(err2.Error())))
				} else if d := diffDurable(dur, copyDurable(w.db.durable)); d != "" {
					w.violate("C15", "reimport-changed-store", fmt.Sprintf("importing the same configuration a second time changed the store: %s", d))
				}
				// give the connectors positions, so the next import has something to lose
				ids := make([]string, 0)
				for id := range env.st.conn.List(ctx) {
					ids = append(ids, id)
				}
				sort.Strings(ids)
				for n, id := range ids {
					if inst, gerr := env.st.conn.Get(ctx, id); gerr == nil && inst.Type == connector.TypeSource {
						_, _ = env.st.conn.SetState(ctx, id, connector.SourceState{Position: opencdc.Position(fmt.Sprintf("pos-%d-%d\xff", i, n))})
					}
				}
			}
			// restart equivalence and references (C14's invariants hold across imports too)
			if d := refsConsistent(ctx, env.st); d != "" {
				w.violate("C15", "dangling-reference:"+tag, fmt.Sprintf("after import #%d (error: %v): %s", i, err != nil, d))
			}
			if w.hasViolation() {
				return
			}
		}
	}
	run(-1, -1, -1)
	w.probe("import-chains")
	if w.hasViolation() {
		return
	}
	for i := range chain {
		for j := 1; j <= storeCounts[i]; j++ {
			run(i, j, -1)
			w.probe("import-store-fault-variants")
			if w.hasViolation() {
				w.note(fmt.Sprintf("failing variant: import %d store-op %d", i, j))
				return
			}
		}
		for j := 1; j <= procCounts[i]; j++ {
			run(i, -1, j)
			w.probe("import-plugin-fault-variants")
			if w.hasViolation() {
				w.note(fmt.Sprintf("failing variant: import %d new-processor %d", i, j))
				return
			}
		}
	}
}

// exportable is the part of a configuration Export can report (status is not exported).
func exportable(c pconfig.Pipeline) pconfig.Pipeline {
	c.Status = pconfig.StatusStopped
	return c
}

var errProcNew = cerrors.New("sim-fault new-processor")
