#!/bin/bash
# Offline set-up: build the harness once (warms the Go build cache incl. the patched runtime).
set -e
cd "$(dirname "$0")"
./build.sh
./build19.sh
echo "setup ok"
